package main

// Rules added after the third round of independent seeds.

import (
	"fmt"
	"go/ast"
	"go/token"
	"go/types"
	"strings"

	"golang.org/x/tools/go/cfg"
)

// R03k: SQLite has no backslash escapes.
const ruleTextNoBackslash = "escape agreement for SQLite: the SQLite statement scanner is configured without backslash escapes, so no function of the sqlite package that walks SQL text byte by byte (compares bytes with a quote character) treats '\\\\' specially; a literal ending in a backslash ends where the engine ends it"

func checkNoBackslashInSqlite(c *Ctx, rule string) {
	n := 0
	c.AllFuncs(false, func(fi *FuncInfo) {
		if fi.Pkg.PkgPath != pSqlite {
			return
		}
		info := fi.Info()
		isByteConst := func(e ast.Expr, r rune) bool {
			tv := info.Types[e]
			if tv.Value == nil {
				return false
			}
			b, ok := tv.Type.Underlying().(*types.Basic)
			if !ok || b.Info()&types.IsInteger == 0 {
				return false
			}
			return tv.Value.String() == itoa(int(r))
		}
		quotes, backslash := false, token.NoPos
		ast.Inspect(fi.Decl.Body, func(m ast.Node) bool {
			switch x := m.(type) {
			case *ast.BinaryExpr:
				for _, e := range []ast.Expr{x.X, x.Y} {
					if isByteConst(e, '\'') {
						quotes = true
					}
					if isByteConst(e, '\\') {
						backslash = e.Pos()
					}
				}
			case *ast.CaseClause:
				for _, e := range x.List {
					if isByteConst(e, '\'') {
						quotes = true
					}
					if isByteConst(e, '\\') {
						backslash = e.Pos()
					}
				}
			}
			return true
		})
		if !quotes {
			return
		}
		n++
		c.funcs[fi.Name] = true
		c.Check(rule, fi.Name+"|no backslash escape while scanning SQL text", backslash, backslash == token.NoPos, "%s treats a backslash as an escape character while scanning SQLite text: SQLite does not, so a string literal ending in \\ is closed later than the engine closes it and what follows is mis-parsed", fi.Name)
	})
	if n == 0 {
		c.Unresolved(rule, "functions of sql/sqlite that scan SQL text for quote characters")
	}
}

// R15k / R03l: a quoted literal becomes a value only through Unquote.
const ruleTextUnquoteOnly = "a quoted SQL literal is turned into its value only by unescaping it: in a branch guarded by sqlx.IsQuoted(v, …) the quotes are not stripped with v[1:len(v)-1] unless that slice is the operand of an unescaping call (strings.ReplaceAll / Unquote); dropping the quotes alone leaves doubled quotes in the value"

func checkUnquoteOnly(c *Ctx, rule string) {
	n := 0
	for _, pp := range []string{pSpecutil, pSqlx, pSqlite, pMysql, pPostgres} {
		c.AllFuncs(false, func(fi *FuncInfo) {
			if fi.Pkg.PkgPath != pp {
				return
			}
			info := fi.Info()
			pm := parentMap(fi.Decl.Body)
			ast.Inspect(fi.Decl.Body, func(m ast.Node) bool {
				cc, ok := m.(*ast.CaseClause)
				var conds []ast.Expr
				var body []ast.Stmt
				if ok {
					conds, body = cc.List, cc.Body
				} else if ifs, isIf := m.(*ast.IfStmt); isIf {
					conds, body = []ast.Expr{ifs.Cond}, ifs.Body.List
				} else {
					return true
				}
				var subject string
				for _, cond := range conds {
					ast.Inspect(cond, func(k ast.Node) bool {
						if call, ok := k.(*ast.CallExpr); ok && funcIs(calleeOf(info, call), pSqlx, "", "IsQuoted") && len(call.Args) >= 1 {
							subject = types.ExprString(call.Args[0])
						}
						return true
					})
				}
				if subject == "" {
					return true
				}
				n++
				c.funcs[fi.Name] = true
				bad := token.NoPos
				for _, st := range body {
					ast.Inspect(st, func(k ast.Node) bool {
						sl, ok := k.(*ast.SliceExpr)
						if !ok || types.ExprString(sl.X) != subject || sl.Low == nil || sl.High == nil {
							return true
						}
						// operand of an unescaping call?
						okUse := false
						for p := pm[sl]; p != nil; p = pm[p] {
							if call, ok := p.(*ast.CallExpr); ok {
								if fn := calleeOf(info, call); fn != nil && (fn.Name() == "ReplaceAll" || fn.Name() == "Unquote" || fn.Name() == "NewReplacer" || fn.Name() == "Replace") {
									okUse = true
								}
								break
							}
							if _, isStmt := p.(ast.Stmt); isStmt {
								break
							}
						}
						if !okUse {
							bad = sl.Pos()
						}
						return true
					})
				}
				c.Check(rule, fi.Name+"|IsQuoted("+subject+") branch unescapes", nodePosOr(bad, m.Pos()), bad == token.NoPos, "%s strips the quotes of %s without unescaping its content: 'O''Brien' becomes O''Brien instead of O'Brien, and the exported default differs from the database's", fi.Name, subject)
				return true
			})
		})
	}
	if n < 2 {
		c.Unresolved(rule, "branches guarded by sqlx.IsQuoted (found fewer than 2)")
	}
}

func nodePosOr(p, def token.Pos) token.Pos {
	if p != token.NoPos {
		return p
	}
	return def
}

// R05g: the flag that turns foreign keys off is monotone.
const ruleTextSkipFKsMonotone = "the SQLite planner's skipFKs flag is monotone: every assignment stores the constant true or a disjunction that includes the flag itself; a later in-place change must not clear what an earlier table rebuild or drop set (the PRAGMA foreign_keys = off wrapper would disappear and DROP TABLE would fire ON DELETE actions)"

func checkSkipFKsMonotone(c *Ctx, rule string) {
	n := 0
	c.AllFuncs(false, func(fi *FuncInfo) {
		if fi.Pkg.PkgPath != pSqlite {
			return
		}
		info := fi.Info()
		ast.Inspect(fi.Decl.Body, func(m ast.Node) bool {
			as, ok := m.(*ast.AssignStmt)
			if !ok {
				return true
			}
			for i, l := range as.Lhs {
				if !isField(info, l, pSqlite, "state", "skipFKs") || i >= len(as.Rhs) {
					continue
				}
				n++
				c.funcs[fi.Name] = true
				r := ast.Unparen(as.Rhs[i])
				ok := false
				if tv := info.Types[r]; tv.Value != nil && tv.Value.String() == "true" {
					ok = true
				}
				for _, d := range impliedFactsOr(r) {
					if isField(info, d, pSqlite, "state", "skipFKs") && types.ExprString(d) == types.ExprString(l) {
						ok = true
					}
				}
				c.Check(rule, fi.Name+"|"+types.ExprString(l)+" = "+types.ExprString(r), as.Pos(), ok, "%s assigns %s to the skipFKs flag: the flag can go back to false after a table rebuild or drop was planned, and the plan loses its PRAGMA foreign_keys = off/on wrapper", fi.Name, types.ExprString(r))
			}
			return true
		})
	})
	if n == 0 {
		c.Unresolved(rule, "assignments to sqlite state.skipFKs")
	}
}

// R05h: who may open a transaction in the SQLite driver.
const ruleTextSqliteBegin = "in sql/sqlite a database transaction is opened only by Driver.OpenTx, which turns foreign-key enforcement off before BEGIN (PRAGMA foreign_keys is a no-op inside a transaction): no other function of the package calls Begin/BeginTx"

func checkSqliteBeginOwner(c *Ctx, rule string) {
	n := 0
	c.AllFuncs(false, func(fi *FuncInfo) {
		if fi.Pkg.PkgPath != pSqlite {
			return
		}
		info := fi.Info()
		for _, call := range callsIn(fi.Decl.Body, true) {
			fn := calleeOf(info, call)
			if fn == nil || (fn.Name() != "BeginTx" && fn.Name() != "Begin") {
				continue
			}
			if fn.Pkg() != nil && fn.Pkg().Path() != "database/sql" && !strings.HasPrefix(fn.Pkg().Path(), modRoot) {
				continue
			}
			n++
			c.funcs[fi.Name] = true
			c.Check(rule, fi.Name+"|calls "+fn.Name(), call.Pos(), fi.Decl.Name.Name == "OpenTx", "%s opens a transaction itself: the planned PRAGMA foreign_keys = off then runs inside a transaction, where SQLite ignores it, and the table rebuild fires ON DELETE actions on referencing rows", fi.Name)
		}
	})
	if n == 0 {
		c.Unresolved(rule, "Begin/BeginTx calls in sql/sqlite (expected in Driver.OpenTx)")
	}
}

// R13e: every field of a revision is written on every write.
const ruleTextSetRevisionAll = "every field of a revision is persisted on every write: in the generated SetRevision methods each Set<Field>(rev.<Field>) call is unconditional (an upsert only overwrites the columns that were set, so a field that is skipped when empty can never be cleared again), and EntRevisions.WriteRevision does not exclude columns from the upsert"

func checkSetRevisionAll(c *Ctx, rule string) {
	n := 0
	c.AllFuncs(true, func(fi *FuncInfo) {
		if fi.Decl.Name.Name != "SetRevision" || !strings.Contains(fi.Pkg.PkgPath, "/internal/migrate/ent") {
			return
		}
		n++
		c.funcs[fi.Name] = true
		bad := token.NoPos
		for _, st := range fi.Decl.Body.List {
			switch st.(type) {
			case *ast.ExprStmt, *ast.ReturnStmt, *ast.AssignStmt:
			default:
				bad = st.Pos()
			}
		}
		c.Check(rule, fi.Name+"|setters are unconditional", nodePosOr(bad, fi.Decl.Pos()), bad == token.NoPos, "%s sets a revision field only under a condition: with the upsert used by WriteRevision the stored value of that column is then kept, e.g. the error text of a failed attempt survives the successful re-run", fi.Name)
	})
	if n == 0 {
		c.Unresolved(rule, "generated SetRevision methods")
	}
	if fi := c.Func(rule, pCmdmig, "EntRevisions", "WriteRevision"); fi != nil {
		info := fi.Info()
		bad := token.NoPos
		for _, call := range callsIn(fi.Decl.Body, true) {
			if se, ok := call.Fun.(*ast.SelectorExpr); ok {
				switch se.Sel.Name {
				case "SetIgnore", "Ignore", "DoNothing", "UpdateID":
					bad = call.Pos()
				}
			}
			_ = info
		}
		c.Check(rule, fi.Name+"|the upsert overwrites every column", nodePosOr(bad, fi.Decl.Pos()), bad == token.NoPos, "EntRevisions.WriteRevision excludes columns from its upsert: progress written later (Total after an edited tail, Hash) is never stored and the next run works on stale values")
	}
}

// R13f: who may apply changes outside the transaction wrapper.
const ruleTextApplyOwner = "schema changes are applied through one place: in cmdapi, ApplyChanges on a *sqlclient.Client (outside a transaction) is called only by applyChanges, which chooses between the transactional and the non-transactional path from --tx-mode; a command that calls it directly ignores the transaction mode"

func checkApplyOwner(c *Ctx, rule string) {
	n := 0
	c.AllFuncs(false, func(fi *FuncInfo) {
		if fi.Pkg.PkgPath != pCmdapi {
			return
		}
		info := fi.Info()
		for _, call := range callsIn(fi.Decl.Body, true) {
			se, ok := call.Fun.(*ast.SelectorExpr)
			if !ok || se.Sel.Name != "ApplyChanges" || !typeIs(derefType(info.TypeOf(se.X)), modRoot+"/sql/sqlclient", "Client") {
				continue
			}
			n++
			c.funcs[fi.Name] = true
			// listed exception: `schema clean` has no --tx-mode flag and drops everything it finds
			allowed := fi.Decl.Name.Name == "applyChanges" || fi.Decl.Name.Name == "applySchemaClean" || c.mayReachedOnlyFrom(fi, "applyChanges")
			c.Check(rule, fi.Name+"|Client.ApplyChanges", call.Pos(), allowed, "%s applies changes directly on the client, outside applyChanges: the requested --tx-mode is ignored and a plan that fails half way leaves its first statements applied", fi.Name)
		}
	})
	if n == 0 {
		c.Unresolved(rule, "Client.ApplyChanges calls in cmdapi")
	}
}

// mayReachedOnlyFrom: fi is a package-local helper whose only callers (in its package) are the named function.
func (c *Ctx) mayReachedOnlyFrom(fi *FuncInfo, owner string) bool {
	callers, ok := 0, true
	c.AllFuncs(false, func(cf *FuncInfo) {
		if cf.Pkg != fi.Pkg {
			return
		}
		for _, call := range callsIn(cf.Decl.Body, true) {
			if calleeOf(cf.Info(), call) == fi.Obj {
				callers++
				if cf.Decl.Name.Name != owner {
					ok = false
				}
			}
		}
	})
	return ok && callers > 0
}

// R16h: a cloned builder has no qualifier.
const ruleTextCloneQualifier = "Builder.Clone() copies the text written so far but not the requested schema qualifier: no qualifier-aware writer (Table, View, TableResource, SchemaResource, TableColumn, mayQualify) is called on a builder obtained from Clone(), directly or through a local function it is handed to; names must be written before cloning"

func checkCloneQualifier(c *Ctx, rule string) {
	n := 0
	qual := map[string]bool{"Table": true, "View": true, "TableResource": true, "SchemaResource": true, "TableColumn": true, "mayQualify": true, "Func": true, "Proc": true}
	for _, pp := range []string{pMysql, pPostgres, pSqlite} {
		c.AllFuncs(false, func(fi *FuncInfo) {
			if fi.Pkg.PkgPath != pp {
				return
			}
			info := fi.Info()
			clones := map[types.Object]bool{}
			ast.Inspect(fi.Decl.Body, func(m ast.Node) bool {
				as, ok := m.(*ast.AssignStmt)
				if !ok || len(as.Lhs) != len(as.Rhs) {
					return true
				}
				for i, r := range as.Rhs {
					if call, ok := ast.Unparen(r).(*ast.CallExpr); ok && funcIs(calleeOf(info, call), pSqlx, "Builder", "Clone") {
						if id, ok := as.Lhs[i].(*ast.Ident); ok {
							clones[info.ObjectOf(id)] = true
						}
					}
				}
				return true
			})
			if len(clones) == 0 {
				return
			}
			n++
			c.funcs[fi.Name] = true
			// parameters of local function literals that receive a clone
			lits := map[types.Object]*ast.FuncLit{}
			ast.Inspect(fi.Decl.Body, func(m ast.Node) bool {
				if as, ok := m.(*ast.AssignStmt); ok && len(as.Lhs) == 1 && len(as.Rhs) == 1 {
					if fl, ok := as.Rhs[0].(*ast.FuncLit); ok {
						if id, ok := as.Lhs[0].(*ast.Ident); ok {
							lits[info.ObjectOf(id)] = fl
						}
					}
				}
				return true
			})
			for _, call := range callsIn(fi.Decl.Body, true) {
				id, ok := call.Fun.(*ast.Ident)
				if !ok {
					continue
				}
				fl := lits[info.ObjectOf(id)]
				if fl == nil {
					continue
				}
				var ps []*ast.Ident
				for _, fld := range fl.Type.Params.List {
					ps = append(ps, fld.Names...)
				}
				for i, a := range call.Args {
					if aid, ok := ast.Unparen(a).(*ast.Ident); ok && clones[info.ObjectOf(aid)] && i < len(ps) {
						clones[info.ObjectOf(ps[i])] = true
					}
				}
			}
			bad := token.NoPos
			what := ""
			for _, call := range callsIn(fi.Decl.Body, true) {
				se, ok := call.Fun.(*ast.SelectorExpr)
				if !ok || !qual[se.Sel.Name] {
					continue
				}
				if fn := calleeOf(info, call); fn == nil || recvTypeName(fn) != "Builder" {
					continue
				}
				// receiver chain rooted at a clone (or at an inline X.Clone())
				root := rootIdent(se.X)
				fromClone := root != nil && clones[info.ObjectOf(root)]
				ast.Inspect(se.X, func(k ast.Node) bool {
					if cc, ok := k.(*ast.CallExpr); ok && funcIs(calleeOf(info, cc), pSqlx, "Builder", "Clone") {
						fromClone = true
					}
					return true
				})
				if fromClone {
					bad, what = call.Pos(), se.Sel.Name
				}
			}
			c.Check(rule, fi.Name+"|no qualified name is written on a cloned builder", nodePosOr(bad, fi.Decl.Pos()), bad == token.NoPos, "%s calls Builder.%s on a builder that came from Clone(): the clone has no schema qualifier, so the statement (typically the reverse statement) names the table with its own schema instead of the requested qualifier", fi.Name, what)
		})
	}
	if n < 2 {
		c.Unresolved(rule, "planner functions that clone a builder (found fewer than 2)")
	}
}

// R16i: the scope check looks at every table-level change the planners accept.
const ruleTextScopeCoversKinds = "the scope check sees every table-level change: sqlx.CheckChangesScope has a case for each change kind that carries a table (field T *schema.Table) and that the MySQL/PostgreSQL planners accept at top level (AddTable, DropTable, ModifyTable); a kind without a case is skipped by `default: continue` and its schema is never counted"

func checkScopeCoversKinds(c *Ctx, rule string) {
	fi := c.Func(rule, pSqlx, "", "CheckChangesScope")
	if fi == nil {
		return
	}
	have, _ := caseTypes(fi.Info(), fi.Decl.Body, isChangeType)
	want := map[string]bool{}
	for _, pp := range []string{pMysql, pPostgres} {
		c.AllFuncs(false, func(pf *FuncInfo) {
			if pf.Pkg.PkgPath != pp || recvName(pf.Decl) != "state" || !(pf.Decl.Name.Name == "plan" || pf.Decl.Name.Name == "topLevel") {
				return
			}
			ts, _ := caseTypes(pf.Info(), pf.Decl.Body, isChangeType)
			for k := range ts {
				if nt := c.NamedType(pSchema, k); nt != nil {
					if st, ok := nt.Underlying().(*types.Struct); ok {
						for i := 0; i < st.NumFields(); i++ {
							if st.Field(i).Name() == "T" && typeIs(derefType(st.Field(i).Type()), pSchema, "Table") {
								want[k] = true
							}
						}
					}
				}
			}
		})
	}
	if len(want) == 0 {
		c.Unresolved(rule, "table-level change kinds accepted by the planners")
		return
	}
	for k := range want {
		c.Check(rule, "CheckChangesScope|case for "+k, fi.Decl.Pos(), have[k], "CheckChangesScope has no case for %s: a change set that touches a second schema only through a %s is accepted under a schema-scoped plan and planned without qualifier", k, k)
	}
}

// R19h: include/exclude scope agreement in the state readers.
const ruleTextExcludeScope = "the desired-state readers choose between the schema-level and the realm-level filter with one condition: in each reader the case that calls schema.ExcludeSchema has the same condition as the case that calls schema.IncludeSchema, and that condition tests the scope variable the reader reports as StateReadCloser.Schema (not the dev URL, which may be absent)"

func checkExcludeScope(c *Ctx, rule string) {
	n := 0
	c.AllFuncs(false, func(fi *FuncInfo) {
		if !strings.HasSuffix(fi.Pkg.PkgPath, "/internal/cmdext") {
			return
		}
		info := fi.Info()
		var inc, exc []string
		var excPos token.Pos
		ast.Inspect(fi.Decl.Body, func(m ast.Node) bool {
			cc, ok := m.(*ast.CaseClause)
			if !ok || len(cc.List) == 0 {
				return true
			}
			var conds []string
			for _, e := range cc.List {
				conds = append(conds, types.ExprString(e))
			}
			for _, st := range cc.Body {
				if nodeHasCall(info, st, isCallTo(pSchema, "", "IncludeSchema")) != nil {
					inc = append(inc, strings.Join(conds, " | "))
				}
				if nodeHasCall(info, st, isCallTo(pSchema, "", "ExcludeSchema")) != nil {
					exc = append(exc, strings.Join(conds, " | "))
					excPos = cc.Pos()
				}
			}
			return true
		})
		if len(exc) == 0 || len(inc) == 0 {
			return
		}
		n++
		c.funcs[fi.Name] = true
		same := len(inc) == len(exc)
		for i := range exc {
			if i < len(inc) && inc[i] != exc[i] {
				same = false
			}
		}
		// the condition mentions the variable reported as Schema:
		scopeVar := ""
		ast.Inspect(fi.Decl.Body, func(m ast.Node) bool {
			if kv, ok := m.(*ast.KeyValueExpr); ok {
				if k, ok := kv.Key.(*ast.Ident); ok && k.Name == "Schema" {
					if v, ok := kv.Value.(*ast.Ident); ok {
						scopeVar = v.Name
					}
				}
			}
			return true
		})
		mentions := scopeVar == "" || strings.Contains(exc[0], scopeVar)
		c.Check(rule, fi.Name+"|ExcludeSchema chosen like IncludeSchema", excPos, same && mentions, "%s chooses the schema-level exclusion under %q but the schema-level inclusion under %q (scope variable %q): without a dev URL an unqualified --exclude pattern is read as a schema glob and excludes nothing from the desired state", fi.Name, strings.Join(exc, "; "), strings.Join(inc, "; "), scopeVar)
	})
	if n == 0 {
		c.Unresolved(rule, "state readers applying IncludeSchema and ExcludeSchema")
	}
}

// R19i: skip options accumulate.
const ruleTextSkipAccumulates = "skip options accumulate: schema.DiffSkipChanges appends to DiffOptions.SkipChanges (append(o.SkipChanges, …)); replacing the list makes every earlier DiffSkipChanges option ineffective"

func checkSkipAccumulates(c *Ctx, rule string) {
	fi := c.Func(rule, pSchema, "", "DiffSkipChanges")
	if fi == nil {
		return
	}
	info := fi.Info()
	n, ok := 0, true
	ast.Inspect(fi.Decl.Body, func(m ast.Node) bool {
		as, isAs := m.(*ast.AssignStmt)
		if !isAs {
			return true
		}
		for i, l := range as.Lhs {
			if !isField(info, l, pSchema, "DiffOptions", "SkipChanges") || i >= len(as.Rhs) {
				continue
			}
			n++
			call, isCall := ast.Unparen(as.Rhs[i]).(*ast.CallExpr)
			if !isCall || builtinName(info, call) != "append" || len(call.Args) < 1 || types.ExprString(call.Args[0]) != types.ExprString(l) {
				ok = false
			}
		}
		return true
	})
	c.Check(rule, "DiffSkipChanges|appends to SkipChanges", fi.Decl.Pos(), ok && n > 0, "DiffSkipChanges replaces DiffOptions.SkipChanges instead of appending to it: of several skip options only the last one is in force")
}

// R15l: an attribute read back by presence is written by presence.
const ruleTextCommentPresence = "comments round-trip by presence: specutil.convertCommentFromSpec adds a schema.Comment whenever the `comment` attribute is present, so convertCommentFromSchema writes the attribute whenever a schema.Comment is present: its guard is the sqlx.Has test alone, with no further condition on the text (an explicit empty comment would be dropped and come back as a missing attribute)"

func checkCommentPresence(c *Ctx, rule string) {
	fi := c.Func(rule, pSpecutil, "", "convertCommentFromSchema")
	if fi == nil {
		return
	}
	info := fi.Info()
	n, ok := 0, true
	var pos token.Pos = fi.Decl.Pos()
	ast.Inspect(fi.Decl.Body, func(m ast.Node) bool {
		ifs, isIf := m.(*ast.IfStmt)
		if !isIf || nodeHasCall(info, ifs.Body, func(fn *types.Func, _ *ast.CallExpr) bool { return fn.Name() == "StringAttr" }) == nil {
			return true
		}
		n++
		call, isCall := ast.Unparen(ifs.Cond).(*ast.CallExpr)
		if !isCall || !funcIs(calleeOf(info, call), pSqlx, "", "Has") {
			ok, pos = false, ifs.Cond.Pos()
		}
		return true
	})
	c.Check(rule, "convertCommentFromSchema|written whenever present", pos, ok && n > 0, "convertCommentFromSchema writes the comment attribute under a condition narrower than `a Comment attribute is present`: an element with an explicit empty comment loses the attribute in HCL and the round-tripped schema differs (ModifyAttr / ChangeComment in both directions)")
}

// R14h: a result cursor is closed on every path.
const ruleTextRowsClosed = "result cursors are closed on every path: in the SQLite driver (one connection; an open cursor keeps the database locked) every *sql.Rows obtained from a query is, on every CFG path from the acquisition to a return (the edge on which the query itself failed or the cursor is nil excepted), closed directly, by a registered `defer rows.Close()`, or by being handed to a function that closes its parameter on all of its paths (callee summaries, depth 3; e.g. sqlx.ScanOne); so a failing inspection cannot leave a cursor open that makes the deferred restore of the dev database fail with `database is locked`"

func checkRowsClosed(c *Ctx, rule string) {
	n := 0
	isRows := func(t types.Type) bool { return t != nil && typeIs(derefType(t), "database/sql", "Rows") }
	// closes reports whether every path of fi from the start points to a
	// return passes a Close of obj (direct, deferred, or through a callee that
	// closes the parameter it receives it as). It returns the leaking return.
	var closes func(fi *FuncInfo, obj types.Object, errObj types.Object, starts func(*Flow) []point, depth int) (ast.Node, bool)
	closes = func(fi *FuncInfo, obj, errObj types.Object, starts func(*Flow) []point, depth int) (ast.Node, bool) {
		info := fi.Info()
		fl := newFlow(info, fi.Decl.Body)
		isObj := func(e ast.Expr) bool {
			id, ok := ast.Unparen(e).(*ast.Ident)
			return ok && info.ObjectOf(id) == obj
		}
		closing := func(nd ast.Node) bool {
			found := false
			ast.Inspect(nd, func(m ast.Node) bool {
				if _, ok := m.(*ast.FuncLit); ok {
					if _, isDefer := nd.(*ast.DeferStmt); !isDefer {
						return false
					}
				}
				call, ok := m.(*ast.CallExpr)
				if !ok || found {
					return !found
				}
				if se, ok := call.Fun.(*ast.SelectorExpr); ok && se.Sel.Name == "Close" && isObj(se.X) {
					found = true
					return false
				}
				for ai, a := range call.Args {
					if !isObj(a) || depth <= 0 {
						continue
					}
					fn := calleeOf(info, call)
					if fn == nil {
						continue
					}
					gi := c.FuncInfoOf(fn)
					if gi == nil || gi.Decl.Body == nil {
						continue
					}
					sig := fn.Type().(*types.Signature)
					if ai >= sig.Params().Len() {
						continue
					}
					pobj := types.Object(sig.Params().At(ai))
					// the declared parameter object of the callee's syntax
					var declObj types.Object
					idx := 0
					for _, fld := range gi.Decl.Type.Params.List {
						for _, nm := range fld.Names {
							if idx == ai {
								declObj = gi.Info().ObjectOf(nm)
							}
							idx++
						}
					}
					if declObj == nil {
						declObj = pobj
					}
					if _, ok := closes(gi, declObj, nil, func(f *Flow) []point { return []point{f.entry()} }, depth-1); ok {
						found = true
						return false
					}
				}
				return true
			})
			return found
		}
		edgeStop := func(b *cfg.Block, si int) bool {
			return edgeImplies(b, si, func(e ast.Expr, val bool) bool {
				be, ok := ast.Unparen(e).(*ast.BinaryExpr)
				if !ok || (be.Op != token.NEQ && be.Op != token.EQL) {
					return false
				}
				var x ast.Expr
				switch {
				case isNilIdent(info, be.Y):
					x = be.X
				case isNilIdent(info, be.X):
					x = be.Y
				default:
					return false
				}
				id, ok := ast.Unparen(x).(*ast.Ident)
				if !ok {
					return false
				}
				isNil := (be.Op == token.EQL) == val
				o := info.ObjectOf(id)
				// no cursor on this edge: the acquiring call failed, or the cursor is nil
				return (o == obj && isNil) || (errObj != nil && o == errObj && !isNil)
			})
		}
		leak, found := fl.reachEx(starts(fl), closing, isReturn, edgeStop)
		return leak, !found
	}
	c.AllFuncs(false, func(fi *FuncInfo) {
		if fi.Pkg.PkgPath != pSqlite && fi.Pkg.PkgPath != pSqlitecheck {
			return
		}
		info := fi.Info()
		type acq struct {
			obj, errObj types.Object
			node        ast.Node
		}
		var acqs []acq
		record := func(lhs []*ast.Ident, rhs ast.Expr, node ast.Node) {
			call, ok := ast.Unparen(rhs).(*ast.CallExpr)
			if !ok || len(lhs) == 0 || !isRows(info.TypeOf(lhs[0])) {
				return
			}
			if tup, ok := info.TypeOf(call).(*types.Tuple); !ok || tup.Len() != 2 || !isRows(tup.At(0).Type()) {
				return
			}
			a := acq{obj: info.ObjectOf(lhs[0]), node: node}
			if len(lhs) > 1 {
				a.errObj = info.ObjectOf(lhs[1])
			}
			acqs = append(acqs, a)
		}
		ast.Inspect(fi.Decl.Body, func(m ast.Node) bool {
			switch x := m.(type) {
			case *ast.FuncLit:
				return false
			case *ast.AssignStmt:
				if len(x.Rhs) == 1 {
					var ids []*ast.Ident
					for _, l := range x.Lhs {
						id, _ := l.(*ast.Ident)
						if id == nil {
							return true
						}
						ids = append(ids, id)
					}
					record(ids, x.Rhs[0], x)
				}
			case *ast.ValueSpec:
				if len(x.Values) == 1 {
					record(x.Names, x.Values[0], x)
				}
			}
			return true
		})
		for _, a := range acqs {
			a := a
			n++
			c.funcs[fi.Name] = true
			leak, ok := closes(fi, a.obj, a.errObj, func(f *Flow) []point {
				var out []point
				for _, pt := range f.find(func(nd ast.Node) bool {
					hit := false
					ast.Inspect(nd, func(m ast.Node) bool {
						if m == a.node {
							hit = true
						}
						return !hit
					})
					return hit
				}) {
					out = append(out, after(pt))
				}
				return out
			}, 3)
			pos := a.node.Pos()
			where := ""
			if leak != nil {
				where = fmt.Sprintf(" (the return at line %d, possibly in a callee it is handed to, is reached with the cursor open)", posLine(c.Fset, leak.Pos()))
			}
			c.Check(rule, fi.Name+"|"+a.obj.Name()+" closed on every path", pos, ok, "%s obtains the cursor %s but a path to a return neither closes it, defers its Close, nor hands it to a function that does%s: the single SQLite connection stays locked by the open cursor and the restore of the dev database fails, handing the database back dirty", fi.Name, a.obj.Name(), where)
		}
	})
	if n < 4 {
		c.Unresolved(rule, "cursor acquisitions in sql/sqlite (found fewer than 4)")
	}
}

// R14i: the restore does not run under a deadline set up in the same function.
func checkRestoreCtx(c *Ctx, fi *FuncInfo, deferred *ast.DeferStmt) {
	info := fi.Info()
	ctxObjs := map[types.Object]bool{}
	ast.Inspect(deferred.Call, func(m ast.Node) bool {
		if id, ok := m.(*ast.Ident); ok {
			if o, ok := info.Uses[id].(*types.Var); ok && typeIs(o.Type(), "context", "Context") && o.Pos() < deferred.Pos() {
				ctxObjs[o] = true
			}
		}
		return true
	})
	var bad ast.Node
	var badName string
	ast.Inspect(fi.Decl.Body, func(m ast.Node) bool {
		as, ok := m.(*ast.AssignStmt)
		if !ok || len(as.Rhs) != 1 {
			return true
		}
		call, ok := ast.Unparen(as.Rhs[0]).(*ast.CallExpr)
		if !ok {
			return true
		}
		fn := calleeOf(info, call)
		if fn == nil || fn.Pkg() == nil || fn.Pkg().Path() != "context" {
			return true
		}
		switch fn.Name() {
		case "WithTimeout", "WithDeadline", "WithTimeoutCause", "WithDeadlineCause":
		default:
			return true
		}
		if id, ok := as.Lhs[0].(*ast.Ident); ok && ctxObjs[info.ObjectOf(id)] && bad == nil {
			bad, badName = as, id.Name
		}
		return true
	})
	pos := deferred.Pos()
	if bad != nil {
		pos = bad.Pos()
	}
	c.Check("R14i", fi.Name+"|restore context unbounded", pos, bad == nil, "%s bounds %s with a deadline and the deferred restore of the dev database runs with that same context: once the deadline has passed the restore fails and the database is handed back dirty", fi.Name, badName)
}

// R14j: deadline-bounded contexts do not flow into snapshot-taking calls.
func checkBoundedCtxFlow(c *Ctx, rule string) {
	c.AllFuncs(false, func(fi *FuncInfo) {
		if !strings.HasPrefix(fi.Pkg.PkgPath, modRoot+"/cmd/atlas") {
			return
		}
		info := fi.Info()
		bounded := map[types.Object]ast.Node{}
		ast.Inspect(fi.Decl.Body, func(m ast.Node) bool {
			as, ok := m.(*ast.AssignStmt)
			if !ok || len(as.Rhs) != 1 {
				return true
			}
			call, ok := ast.Unparen(as.Rhs[0]).(*ast.CallExpr)
			if !ok {
				return true
			}
			fn := calleeOf(info, call)
			if fn == nil || fn.Pkg() == nil || fn.Pkg().Path() != "context" {
				return true
			}
			switch fn.Name() {
			case "WithTimeout", "WithDeadline", "WithTimeoutCause", "WithDeadlineCause":
				if id, ok := as.Lhs[0].(*ast.Ident); ok && info.ObjectOf(id) != nil {
					bounded[info.ObjectOf(id)] = as
				}
			}
			return true
		})
		for obj, def := range bounded {
			c.funcs[fi.Name] = true
			var bad *ast.CallExpr
			ast.Inspect(fi.Decl.Body, func(m ast.Node) bool {
				call, ok := m.(*ast.CallExpr)
				if !ok || bad != nil || call.Pos() < def.End() {
					return bad == nil
				}
				uses := false
				for _, a := range call.Args {
					if id, ok := ast.Unparen(a).(*ast.Ident); ok && info.ObjectOf(id) == obj {
						uses = true
					}
				}
				if !uses {
					return true
				}
				if fn := calleeOf(info, call); fn != nil && c.mayReach(fn, func(g *types.Func) bool { return isSnapshotCall(g, nil) }, 6) {
					bad = call
				}
				return true
			})
			pos, what := def.Pos(), ""
			if bad != nil {
				pos, what = bad.Pos(), c.nodeAt(bad)
			}
			c.Check(rule, fi.Name+"|bounded "+obj.Name()+" not handed to a snapshot-taking call", pos, bad == nil, "%s bounds %s with a deadline and hands it to %s, which can reach Snapshot: the deferred restore of the dev database runs with that context and fails once the deadline has passed, leaving the database dirty", fi.Name, obj.Name(), what)
		}
	})
}

// R18g: SpanDropped accumulates.
func checkSpanAccumulates(c *Ctx, rule string) {
	p := c.Pkg(pSqlcheck)
	if p == nil {
		return
	}
	dropped := p.Types.Scope().Lookup("SpanDropped")
	if dropped == nil {
		c.Unresolved(rule, "const sqlcheck.SpanDropped")
		return
	}
	n := 0
	c.AllFuncs(false, func(fi *FuncInfo) {
		if fi.Pkg.PkgPath != pSqlcheck {
			return
		}
		info := fi.Info()
		mentions := func(e ast.Expr) bool {
			hit := false
			ast.Inspect(e, func(m ast.Node) bool {
				if id, ok := m.(*ast.Ident); ok && info.Uses[id] == dropped {
					hit = true
				}
				return !hit
			})
			return hit
		}
		ast.Inspect(fi.Decl.Body, func(m ast.Node) bool {
			as, ok := m.(*ast.AssignStmt)
			if !ok || len(as.Lhs) != 1 || len(as.Rhs) != 1 || !mentions(as.Rhs[0]) {
				return true
			}
			if !typeIs(info.TypeOf(as.Lhs[0]), pSqlcheck, "ResourceSpan") {
				return true
			}
			n++
			c.funcs[fi.Name] = true
			ok2 := as.Tok == token.OR_ASSIGN
			if !ok2 && as.Tok == token.ASSIGN {
				if be, ok := ast.Unparen(as.Rhs[0]).(*ast.BinaryExpr); ok && be.Op == token.OR {
					l := types.ExprString(as.Lhs[0])
					ok2 = types.ExprString(be.X) == l || types.ExprString(be.Y) == l
				}
			}
			c.Check(rule, fi.Name+"|"+types.ExprString(as.Lhs[0])+" accumulates SpanDropped", as.Pos(), ok2, "%s overwrites %s with SpanDropped instead of OR-ing it onto the recorded span: an object the file itself added is no longer SpanTemporary, so dropping a scratch object created in the same file is reported as destructive", fi.Name, types.ExprString(as.Lhs[0]))
			return true
		})
	})
	if n < 3 {
		c.Unresolved(rule, "writes of SpanDropped to a ResourceSpan in sql/sqlcheck (fewer than 3)")
	}
}

// R18h: the realm handed to the next file derives from an inspection.
func checkRealmThreading(c *Ctx, rule string) {
	pp := modRoot + "/cmd/atlas/internal/migratelint"
	isRealm := func(t types.Type) bool { return t != nil && typeIs(derefType(t), pSchema, "Realm") }
	isInspect := func(g *types.Func) bool {
		return g.Name() == "InspectRealm" || g.Name() == "InspectSchema"
	}
	var threaded []*FuncInfo
	c.AllFuncs(false, func(fi *FuncInfo) {
		if fi.Pkg.PkgPath != pp || recvName(fi.Decl) != "DevLoader" || fi.Decl.Type.Results == nil {
			return
		}
		sig := fi.Obj.Type().(*types.Signature)
		if sig.Results().Len() != 2 || !isRealm(sig.Results().At(0).Type()) {
			return
		}
		// executes statements of a file?
		if !c.mayReach(fi.Obj, func(g *types.Func) bool { return g.Name() == "ExecContext" }, 2) {
			return
		}
		threaded = append(threaded, fi)
	})
	isThreaded := func(fn *types.Func) bool {
		for _, t := range threaded {
			if t.Obj == fn {
				return true
			}
		}
		return false
	}
	n := 0
	for _, fi := range threaded {
		info := fi.Info()
		c.funcs[fi.Name] = true
		// variable → derives from an inspection (flow-insensitive, through copies)
		derives := map[types.Object]bool{}
		fromInspect := func(e ast.Expr) bool {
			call, ok := ast.Unparen(e).(*ast.CallExpr)
			if !ok {
				return false
			}
			fn := calleeOf(info, call)
			return fn != nil && (isThreaded(fn) || c.mayReach(fn, isInspect, 2))
		}
		for changed := true; changed; {
			changed = false
			ast.Inspect(fi.Decl.Body, func(m ast.Node) bool {
				as, ok := m.(*ast.AssignStmt)
				if !ok {
					return true
				}
				for i, l := range as.Lhs {
					id, ok := l.(*ast.Ident)
					if !ok || info.ObjectOf(id) == nil || derives[info.ObjectOf(id)] {
						continue
					}
					var rhs ast.Expr
					if len(as.Rhs) == len(as.Lhs) {
						rhs = as.Rhs[i]
					} else if i == 0 && len(as.Rhs) == 1 {
						rhs = as.Rhs[0]
					}
					if rhs == nil {
						continue
					}
					d := fromInspect(rhs)
					if rid, ok := ast.Unparen(rhs).(*ast.Ident); ok && derives[info.ObjectOf(rid)] {
						d = true
					}
					if d {
						derives[info.ObjectOf(id)] = true
						changed = true
					}
				}
				return true
			})
		}
		var named types.Object
		if fld := fi.Decl.Type.Results.List[0]; len(fld.Names) > 0 {
			named = info.ObjectOf(fld.Names[0])
		}
		ast.Inspect(fi.Decl.Body, func(m ast.Node) bool {
			if _, ok := m.(*ast.FuncLit); ok {
				return false
			}
			ret, ok := m.(*ast.ReturnStmt)
			if !ok {
				return true
			}
			var ok2 bool
			var what string
			switch {
			case len(ret.Results) == 0:
				ok2, what = named != nil && derives[named], "the named result"
			case len(ret.Results) == 1:
				ok2, what = fromInspect(ret.Results[0]), types.ExprString(ret.Results[0])
			default:
				r := ast.Unparen(ret.Results[0])
				if isNilIdent(info, r) {
					return true // failure return
				}
				what = types.ExprString(r)
				if id, ok := r.(*ast.Ident); ok {
					ok2 = derives[info.ObjectOf(id)]
				}
			}
			n++
			c.Check(rule, fi.Name+"|returns inspected realm ("+what+")", ret.Pos(), ok2, "%s returns %s as the state after the file, but no definition of it comes from an inspection of the dev database: the next file is diffed against a stale realm, its drops are invisible and everything else looks newly added (so later drops are classified temporary and suppressed)", fi.Name, what)
			return true
		})
	}
	if n < 3 {
		c.Unresolved(rule, "success returns of state-threading DevLoader methods (fewer than 3)")
	}
}

// R01m: inspected key parts are numbered by the engine's ordinal.
const ruleTextPartOrdinal = "query/consumer agreement in the SQLite inspector: every schema.IndexPart built while scanning a cursor takes its SeqNo from the engine's part ordinal — either the value scanned from the bare ordinal column of the query (`pk` of pragma_table_[x]info, `seqno` of pragma_index_[x]info) with the parts sorted by SeqNo afterwards, or arrival order under a query whose ORDER BY starts with that ordinal column; otherwise a key declared in another order than the engine's row order is inspected differently from how it was written and never converges"

func checkPartOrdinal(c *Ctx, rule string) {
	n := 0
	// queries feeding a function: its own QueryContext, or the one of the package-local caller that hands it the cursor
	queryOf := func(fi *FuncInfo) (string, bool) {
		var find func(fi *FuncInfo, depth int) (string, bool)
		find = func(fi *FuncInfo, depth int) (string, bool) {
			info := fi.Info()
			var q string
			ast.Inspect(fi.Decl.Body, func(m ast.Node) bool {
				call, ok := m.(*ast.CallExpr)
				if !ok || q != "" {
					return q == ""
				}
				se, ok := call.Fun.(*ast.SelectorExpr)
				if !ok || (se.Sel.Name != "QueryContext" && se.Sel.Name != "Query") {
					return true
				}
				for _, a := range call.Args {
					if s, ok := stringConst(info, a); ok {
						q = s
						return false
					}
					if inner, ok := ast.Unparen(a).(*ast.CallExpr); ok && funcIs(calleeOf(info, inner), "fmt", "", "Sprintf") && len(inner.Args) > 0 {
						if s, ok := stringConst(info, inner.Args[0]); ok {
							q = s
							return false
						}
					}
				}
				return true
			})
			return q, q != ""
		}
		if q, ok := find(fi, 0); ok {
			return q, true
		}
		var out string
		c.AllFuncs(false, func(g *FuncInfo) {
			if g.Pkg.PkgPath != fi.Pkg.PkgPath || out != "" {
				return
			}
			for _, call := range callsIn(g.Decl.Body, true) {
				if calleeOf(g.Info(), call) == fi.Obj {
					if q, ok := find(g, 0); ok {
						out = q
					}
				}
			}
		})
		return out, out != ""
	}
	unquote := func(s string) string { return strings.ToLower(strings.Trim(strings.TrimSpace(s), "`\"[]")) }
	selectList := func(q string) []string {
		lq := strings.ToLower(q)
		i, j := strings.Index(lq, "select"), strings.Index(lq, " from ")
		if i < 0 || j < i {
			return nil
		}
		var out []string
		depth, start := 0, i+len("select")
		for k := start; k < j; k++ {
			switch q[k] {
			case '(':
				depth++
			case ')':
				depth--
			case ',':
				if depth == 0 {
					out = append(out, q[start:k])
					start = k + 1
				}
			}
		}
		return append(out, q[start:j])
	}
	orderFirst := func(q string) string {
		lq := strings.ToLower(q)
		i := strings.LastIndex(lq, "order by")
		if i < 0 {
			return ""
		}
		rest := strings.TrimSpace(q[i+len("order by"):])
		if k := strings.IndexAny(rest, ", "); k >= 0 {
			rest = rest[:k]
		}
		return unquote(rest)
	}
	ordinalOf := func(q string) string {
		lq := strings.ToLower(q)
		switch {
		case strings.Contains(lq, "pragma_table_xinfo") || strings.Contains(lq, "pragma_table_info"):
			return "pk"
		case strings.Contains(lq, "pragma_index_xinfo") || strings.Contains(lq, "pragma_index_info"):
			return "seqno"
		}
		return ""
	}
	c.AllFuncs(false, func(fi *FuncInfo) {
		if fi.Pkg.PkgPath != pSqlite {
			return
		}
		info := fi.Info()
		// scanned variables and their position in the Scan call
		scanPos := map[types.Object]int{}
		ast.Inspect(fi.Decl.Body, func(m ast.Node) bool {
			call, ok := m.(*ast.CallExpr)
			if !ok {
				return true
			}
			if se, ok := call.Fun.(*ast.SelectorExpr); ok && se.Sel.Name == "Scan" && typeIs(derefType(info.TypeOf(se.X)), "database/sql", "Rows") {
				for ai, a := range call.Args {
					if un, ok := ast.Unparen(a).(*ast.UnaryExpr); ok && un.Op == token.AND {
						if id := rootIdent(un.X); id != nil && info.ObjectOf(id) != nil {
							scanPos[info.ObjectOf(id)] = ai
						}
					}
				}
			}
			return true
		})
		if len(scanPos) == 0 {
			return
		}
		ast.Inspect(fi.Decl.Body, func(m ast.Node) bool {
			cl, ok := m.(*ast.CompositeLit)
			if !ok || !typeIs(info.TypeOf(cl), pSchema, "IndexPart") {
				return true
			}
			var seq ast.Expr
			for _, el := range cl.Elts {
				if kv, ok := el.(*ast.KeyValueExpr); ok {
					if k, ok := kv.Key.(*ast.Ident); ok && k.Name == "SeqNo" {
						seq = kv.Value
					}
				}
			}
			if seq == nil {
				return true
			}
			n++
			c.funcs[fi.Name] = true
			key := fi.Name + "|SeqNo of inspected part from the engine's ordinal"
			q, ok := queryOf(fi)
			if !ok {
				c.Unresolved(rule, fi.Name+": query feeding the cursor")
				return true
			}
			ord := ordinalOf(q)
			if ord == "" {
				c.Unresolved(rule, fi.Name+": ordinal column of the pragma in "+q)
				return true
			}
			// scanned?
			var scanned types.Object
			ast.Inspect(seq, func(m ast.Node) bool {
				if id, ok := m.(*ast.Ident); ok {
					if _, ok := scanPos[info.ObjectOf(id)]; ok {
						scanned = info.ObjectOf(id)
					}
				}
				return true
			})
			if scanned == nil {
				first := orderFirst(q)
				c.Check(rule, key, cl.Pos(), first == ord, "%s numbers the parts in arrival order (%s) but the query is ordered by %q, not by the part ordinal %q: a key whose parts are declared in another order is inspected in the wrong order, so the diff with the desired schema is never empty", fi.Name, types.ExprString(seq), first, ord)
				return true
			}
			cols := selectList(q)
			pos := scanPos[scanned]
			col := ""
			if pos < len(cols) {
				col = unquote(cols[pos])
			}
			// sorted by SeqNo afterwards: in this function or in a package-local caller
			sorted := false
			hasSort := func(g *FuncInfo) bool {
				hit := false
				for _, call := range callsIn(g.Decl.Body, true) {
					fn := calleeOf(g.Info(), call)
					if fn == nil || fn.Pkg() == nil || (fn.Pkg().Path() != "sort" && fn.Pkg().Path() != "slices") || !strings.Contains(fn.Name(), "Sort") && !strings.Contains(fn.Name(), "Slice") {
						continue
					}
					for _, a := range call.Args {
						if fl, ok := a.(*ast.FuncLit); ok {
							ast.Inspect(fl.Body, func(m ast.Node) bool {
								if se, ok := m.(*ast.SelectorExpr); ok && se.Sel.Name == "SeqNo" {
									hit = true
								}
								return true
							})
						}
					}
				}
				return hit
			}
			if hasSort(fi) {
				sorted = true
			} else {
				c.AllFuncs(false, func(g *FuncInfo) {
					if g.Pkg.PkgPath != fi.Pkg.PkgPath || sorted {
						return
					}
					for _, call := range callsIn(g.Decl.Body, true) {
						if calleeOf(g.Info(), call) == fi.Obj && hasSort(g) {
							sorted = true
						}
					}
				})
			}
			c.Check(rule, key, cl.Pos(), col == ord && (sorted || orderFirst(q) == ord), "%s takes SeqNo from the scanned value %s, which is column %q of the query (the part ordinal is the bare column %q), parts sorted by SeqNo afterwards=%v: the inspected order of the key parts is not the engine's, so a key declared in another order never converges", fi.Name, scanned.Name(), col, ord, sorted)
			return true
		})
	})
	if n < 2 {
		c.Unresolved(rule, "schema.IndexPart literals built while scanning a cursor in sql/sqlite (fewer than 2)")
	}
}

// R20h: the planners treat the changes they are given as read-only.
const ruleTextPlannerInputRO = "the planners treat the changes they are given as read-only: in the planner files (migrate*.go, plan.go) of the drivers and sqlx, no statement stores into a field of a schema object (a struct of sql/schema reached through a pointer) that is a parameter or was obtained from one by ranging, indexing, type-switching or field selection; normalised variants are built as new values. `schema apply` plans the same change list twice (display, then execution), so a store would make the second plan differ from the first"

// plannerInputStoreExceptions: one named store each, with the reason it does
// not make a second plan differ.
var plannerInputStoreExceptions = map[string]string{
	"mysql.(state).column|t.Attrs":     "idempotent normalisation: the column's AUTO_INCREMENT value is copied to the table attributes only when the table has none (`!sqlx.Has(t.Attrs, &AutoIncrement{})`), before the table options of the same statement are rendered; the second plan finds the attribute, skips the store and renders the same text",
	"sqlite.normalizeIdxName|idx.Name": "idempotent normalisation: an engine-generated `sqlite_autoindex…` name is replaced, before the statement is rendered, by <table>_<columns>; the second plan sees the replaced name, skips the store and renders the same text",
}

// plannerInputStoreValidators check, per listed exception, that the store is still idempotent:
// the guard that makes the second execution a no-op encloses it.
var plannerInputStoreValidators = map[string]func(info *types.Info, fl *Flow, lhs ast.Expr) bool{
	// t.Attrs = append(t.Attrs, a) only where !sqlx.Has(t.Attrs, &<type of a>{}) was established
	"mysql.(state).column|t.Attrs": func(info *types.Info, fl *Flow, lhs ast.Expr) bool {
		return fl.established(lhs, func(e ast.Expr, val bool) bool {
			call, ok := ast.Unparen(e).(*ast.CallExpr)
			if !ok || val || !funcIs(calleeOf(info, call), pSqlx, "", "Has") || len(call.Args) != 2 {
				return false
			}
			return types.ExprString(ast.Unparen(call.Args[0])) == types.ExprString(ast.Unparen(lhs))
		})
	},
	// idx.Name = … only where strings.HasPrefix(idx.Name, "sqlite_autoindex…") was established
	"sqlite.normalizeIdxName|idx.Name": func(info *types.Info, fl *Flow, lhs ast.Expr) bool {
		return fl.established(lhs, func(e ast.Expr, val bool) bool {
			call, ok := ast.Unparen(e).(*ast.CallExpr)
			if !ok || !val || !funcIs(calleeOf(info, call), "strings", "", "HasPrefix") || len(call.Args) != 2 {
				return false
			}
			s, ok := stringConst(info, call.Args[1])
			return ok && strings.HasPrefix(s, "sqlite_autoindex") && types.ExprString(ast.Unparen(call.Args[0])) == types.ExprString(ast.Unparen(lhs))
		})
	},
}

func checkPlannerInputReadOnly(c *Ctx, rule string) {
	n := 0
	for _, pp := range []string{pSqlx, pMysql, pPostgres, pSqlite} {
		c.AllFuncs(false, func(fi *FuncInfo) {
			if fi.Pkg.PkgPath != pp {
				return
			}
			base := c.Fset.Position(fi.Decl.Pos()).Filename
			base = base[strings.LastIndex(base, "/")+1:]
			if !(strings.HasPrefix(base, "migrate") || base == "plan.go") {
				return
			}
			info := fi.Info()
			inSchema := func(t types.Type) bool {
				if t == nil {
					return false
				}
				switch u := t.(type) {
				case *types.Pointer:
					t = u.Elem()
				}
				if sl, ok := t.Underlying().(*types.Slice); ok {
					t = sl.Elem()
					if p, ok := t.(*types.Pointer); ok {
						t = p.Elem()
					}
				}
				nt := namedOf(t)
				return nt != nil && nt.Obj().Pkg() != nil && nt.Obj().Pkg().Path() == pSchema
			}
			derived := map[types.Object]bool{}
			for _, fld := range fi.Decl.Type.Params.List {
				for _, nm := range fld.Names {
					if o := info.ObjectOf(nm); o != nil && inSchema(o.Type()) {
						derived[o] = true
					}
				}
			}
			if len(derived) == 0 {
				return
			}
			// alias-producing expressions rooted at a derived object (no calls: results of helpers are treated as fresh)
			var isDerived func(e ast.Expr) bool
			isDerived = func(e ast.Expr) bool {
				switch x := ast.Unparen(e).(type) {
				case *ast.Ident:
					return derived[info.ObjectOf(x)]
				case *ast.SelectorExpr:
					if _, isField := info.Selections[x]; isField {
						return isDerived(x.X)
					}
				case *ast.IndexExpr:
					return isDerived(x.X)
				case *ast.SliceExpr:
					return isDerived(x.X)
				case *ast.StarExpr:
					return isDerived(x.X)
				case *ast.TypeAssertExpr:
					return isDerived(x.X)
				case *ast.CallExpr:
					// a module-local helper handed input objects and returning schema objects
					// (a filtered list, a looked-up element) returns the same objects
					fn := calleeOf(info, x)
					if fn == nil || fn.Pkg() == nil || !strings.HasPrefix(fn.Pkg().Path(), modRoot) || !inSchema(info.TypeOf(x)) {
						return false
					}
					for _, a := range x.Args {
						if isDerived(a) {
							return true
						}
					}
				}
				return false
			}
			aliasType := func(t types.Type) bool {
				if t == nil {
					return false
				}
				switch t.Underlying().(type) {
				case *types.Pointer, *types.Slice, *types.Interface, *types.Map:
					return true
				}
				return false
			}
			for changed := true; changed; {
				changed = false
				mark := func(id *ast.Ident) {
					if id == nil || id.Name == "_" {
						return
					}
					if o := info.ObjectOf(id); o != nil && !derived[o] && aliasType(o.Type()) {
						derived[o] = true
						changed = true
					}
				}
				ast.Inspect(fi.Decl.Body, func(m ast.Node) bool {
					switch x := m.(type) {
					case *ast.RangeStmt:
						if isDerived(x.X) {
							if id, ok := x.Value.(*ast.Ident); ok {
								mark(id)
							}
						}
					case *ast.AssignStmt:
						if len(x.Lhs) == len(x.Rhs) {
							for i, l := range x.Lhs {
								if id, ok := l.(*ast.Ident); ok && isDerived(x.Rhs[i]) {
									mark(id)
								}
							}
						} else if len(x.Rhs) == 1 && len(x.Lhs) == 2 { // v, ok := x.(T)
							if ta, ok := ast.Unparen(x.Rhs[0]).(*ast.TypeAssertExpr); ok && isDerived(ta.X) {
								if id, ok := x.Lhs[0].(*ast.Ident); ok {
									mark(id)
								}
							}
						}
					case *ast.TypeSwitchStmt:
						var subj ast.Expr
						var bind *ast.Ident
						switch a := x.Assign.(type) {
						case *ast.AssignStmt:
							if ta, ok := a.Rhs[0].(*ast.TypeAssertExpr); ok {
								subj = ta.X
							}
							bind, _ = a.Lhs[0].(*ast.Ident)
						case *ast.ExprStmt:
							if ta, ok := a.X.(*ast.TypeAssertExpr); ok {
								subj = ta.X
							}
						}
						if subj != nil && bind != nil && isDerived(subj) {
							for _, cc := range x.Body.List {
								if o := info.Implicits[cc]; o != nil && !derived[o] && aliasType(o.Type()) {
									derived[o] = true
									changed = true
								}
							}
						}
					}
					return true
				})
			}
			n++
			c.funcs[fi.Name] = true
			bad := ""
			pos := fi.Decl.Pos()
			var exceptions []string
			store := func(l ast.Expr, at token.Pos) {
				l = ast.Unparen(l)
				var base ast.Expr
				switch x := l.(type) {
				case *ast.SelectorExpr:
					if _, isField := info.Selections[x]; !isField {
						return
					}
					base = x.X
				case *ast.IndexExpr:
					base = x.X
				case *ast.StarExpr:
					base = x.X
				default:
					return
				}
				if !isDerived(base) {
					return
				}
				// the struct written lives in sql/schema
				bt := info.TypeOf(base)
				if !inSchema(bt) {
					return
				}
				if _, listed := plannerInputStoreExceptions[fi.Name+"|"+types.ExprString(l)]; listed {
					// a listed exception holds only while the reason it is listed for is visible in the code
					if v := plannerInputStoreValidators[fi.Name+"|"+types.ExprString(l)]; v == nil || v(info, newFlow(info, fi.Decl.Body), l) {
						exceptions = append(exceptions, types.ExprString(l))
						return
					}
				}
				if bad == "" {
					bad, pos = types.ExprString(l), at
				}
			}
			ast.Inspect(fi.Decl.Body, func(m ast.Node) bool {
				switch x := m.(type) {
				case *ast.AssignStmt:
					if x.Tok == token.DEFINE {
						return true
					}
					for _, l := range x.Lhs {
						store(l, x.Pos())
					}
				case *ast.IncDecStmt:
					store(x.X, x.Pos())
				}
				return true
			})
			for _, e := range exceptions {
				c.Check(rule, fi.Name+"|listed exception "+e, pos, true, "%s", plannerInputStoreExceptions[fi.Name+"|"+e])
			}
			c.Check(rule, fi.Name+"|input changes not written", pos, bad == "", "%s stores into %s, an object of the change list it was given: the caller's changes are modified by planning, so planning the same list again (`schema apply` plans for display and again for execution) yields a different plan", fi.Name, bad)
		})
	}
	if n < 10 {
		c.Unresolved(rule, "planner functions taking schema objects (found fewer than 10)")
	}
}

// R20i: slice helpers of sql/schema that return a new slice do not reuse the argument's backing array.
func checkSchemaSliceHelpers(c *Ctx, rule string) {
	n := 0
	c.AllFuncs(false, func(fi *FuncInfo) {
		if fi.Pkg.PkgPath != pSchema || fi.Decl.Type.Results == nil {
			return
		}
		info := fi.Info()
		sig := fi.Obj.Type().(*types.Signature)
		retSlice := false
		for i := 0; i < sig.Results().Len(); i++ {
			if _, ok := sig.Results().At(i).Type().Underlying().(*types.Slice); ok {
				retSlice = true
			}
		}
		if !retSlice {
			return
		}
		params := map[types.Object]bool{}
		for _, fld := range fi.Decl.Type.Params.List {
			for _, nm := range fld.Names {
				if _, ok := info.TypeOf(fld.Type).Underlying().(*types.Slice); ok {
					params[info.ObjectOf(nm)] = true
				}
			}
		}
		if len(params) == 0 {
			return
		}
		n++
		c.funcs[fi.Name] = true
		bad := ""
		pos := fi.Decl.Pos()
		isParam := func(e ast.Expr) bool {
			id, ok := ast.Unparen(e).(*ast.Ident)
			return ok && params[info.ObjectOf(id)]
		}
		ast.Inspect(fi.Decl.Body, func(m ast.Node) bool {
			switch x := m.(type) {
			case *ast.SliceExpr:
				if x.High != nil && x.Low == nil && isParam(x.X) {
					if tv := info.Types[x.High]; tv.Value != nil && tv.Value.String() == "0" {
						bad, pos = types.ExprString(x), x.Pos()
					}
				}
			case *ast.CallExpr:
				if builtinName(info, x) == "append" && len(x.Args) > 0 {
					if sl, ok := ast.Unparen(x.Args[0]).(*ast.SliceExpr); ok && isParam(sl.X) && !capLimited(sl) {
						bad, pos = types.ExprString(x), x.Pos()
					}
				}
				if fn := calleeOf(info, x); fn != nil && fn.Pkg() != nil && fn.Pkg().Path() == "slices" && (fn.Name() == "DeleteFunc" || fn.Name() == "Delete" || fn.Name() == "Compact" || fn.Name() == "CompactFunc") && len(x.Args) > 0 && isParam(x.Args[0]) {
					bad, pos = types.ExprString(x), x.Pos()
				}
			}
			return true
		})
		c.Check(rule, fi.Name+"|result not built in the argument's backing array", pos, bad == "", "%s builds the slice it returns in the backing array of its argument (%s): a caller that does not assign the result back — a read-only diff — has its schema's attributes overwritten, so marshalling or planning the same schema afterwards gives different output", fi.Name, bad)
	})
	if n < 2 {
		c.Unresolved(rule, "sql/schema functions taking and returning a slice (fewer than 2)")
	}
}

// capLimited: s[lo:hi:hi] — an append to it cannot write into s's backing array beyond hi, it reallocates.
func capLimited(sl *ast.SliceExpr) bool {
	return sl.Slice3 && sl.Max != nil && sl.High != nil && types.ExprString(sl.Max) == types.ExprString(sl.High)
}
