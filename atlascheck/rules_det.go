package main

import (
	"go/ast"
	"go/token"
	"go/types"
	"sort"
	"strings"

	"golang.org/x/tools/go/ssa"
)

func init() {
	register("C20", &propCheck{
		explanation: "(a) Order-sensitivity lint over every `range` on a map in the non-test, non-generated code of both modules (sql/…, schemahcl, cmd/atlas/internal/…): the loop body may only write maps/sets, accumulate commutatively, collect into a slice that is sorted later in the same function, delete, or leave with values that do not depend on the element; anything else (appending to a slice that escapes unsorted, writing to a builder/writer, calling a method with the element) makes output depend on Go's randomised map order and is reported unless the site is a listed exception with its reason. (b) No shared planning state: no package-level variable is written on any path reachable from PlanChanges / the differs / MarshalSpec / Format / Checksum (call-graph effect analysis; sync-guarded registries written from init are listed), and each PlanChanges allocates a fresh state.",
		undecided:   []string{"data races under a real scheduler", "byte equality across processes for inputs whose own order differs (declaration order in HCL sources changes statement order, which the property allows)", "nondeterminism inside third-party libraries (hcl, ent)"},
		run:         runC20,
	})
}

// mapRangeExceptions: site key → reason it is order-insensitive although the lint cannot see it.
var mapRangeExceptions = map[string]string{
	"cloudapi.(roundTripper).RoundTrip|range r.extraHeaders": "http.Header.Set writes a map keyed by header name (set-like)",
	"cloudapi.SetHeader|range header(token)":                 "http.Header.Set writes a map keyed by header name (set-like)",
	"cmdapi.resetFromEnv|range mayReset":                     "resets independent flags; cobra.CheckErr only aborts on error",
	"cmdext.(registry).Differ|range r":                       "no registered loader of the OSS build implements MigrateDiffer; at most one can match",
	"schemahcl.bodyVars|range b.Attributes":                  "collected traversals are graph edges of the reference sort (set-like consumer; evaluation results are keyed by name)",
	"schemahcl.typeRefs|range b.Attributes":                  "collected traversals are looked up by root name (set-like consumer)",
	"schemahcl.(registry).lookup|range r":                    "an extension type is registered under one name (Register panics on duplicates); at most one entry matches",
	"schemahcl.(registry).implementers|range r":              "names are used as a type filter by childrenOfType (set-like); children keep document order",
	"schemahcl.(Resource).as|range existingAttrs":            "remaining attributes are stored by SetAttr (replace-or-append keyed by name) and read back by name",
	"schemahcl.(Resource).as|range existingChildren#2":       "remaining children are read back by type (childrenOfType / Resource(type)); order across types is not observable in marshalled output, which is built from schema objects",
	"schemahcl.(State).EvalOptions|range files":              "blocks are registered into definitions keyed by type/name and variables into a map; the evaluation loop later iterates the sorted file names",
	"schemahcl.(State).EvalOptions|range metaBlocks#3":       "per-file appends go to that file's own block list (keyed by name); the collected blocks feed blockVars, a map",
	"migrate.(MemDir).Close|range memDirs.opened":            "finds the single registry entry of this directory; a second match is an error",
	"postgres.(inspect).addIndexes|range m":                  "the JSON object holds the constraint backing the index (one entry per index in PostgreSQL's catalog: contype p/u/x); not confirmable offline",
}

type mapRangeSite struct {
	fi      *FuncInfo
	rs      *ast.RangeStmt
	key     string
	effects []string
	bad     []string
	pos     token.Pos
}

func runC20(c *Ctx) {
	c.Rule("R20a", "order-insensitive map iteration: every range over a map only writes maps, accumulates commutatively, collects into a slice sorted before it escapes, or exits with element-independent values (listed exceptions carry a reason)", 20)
	c.Rule("R20b", "no shared planning state: functions reachable from the planners, differs, marshalers, formatters and Checksum write no package-level variable; PlanChanges allocates its state per call and stores nothing into its receiver", 5)

	c.Rule("R20c", "sibling agreement: every implementation of migrate.Dir.Files orders the files by name alone (every ordered comparison of the sort comparator is over file names / Name()), the unique key of a directory entry: a coarser key (version, description) leaves files with equal keys in map/listing order, and another primary key makes the cumulative hash differ from the sibling implementations", 3)
	checkFilesOrdering(c, "R20c")
	c.Rule("R20d", "planning does not mutate its input: the shared planning helpers (detachReferences, DetachCycles, SortChanges, dependencies) never store into a field of a schema object through a pointer (they work on struct copies); planning the same change set twice must see the same objects", 2)
	checkPlanningPurity(c)
	c.Rule("R20g", "no ambient input: functions reachable (CHA, static callees) from the planners, differs, HCL marshaller, file formatter and checksum never call the clock, a random source or the process environment (time.Now/Since, math/rand, crypto/rand, os.Getenv/Hostname/…); the only time-dependent output is the file name produced by the `now` template function, which is outside this set", 1)
	c.Rule("R20e", ruleTextFileBytesOwned, 1)
	checkFileBytesOwned(c, "R20e")
	c.Rule("R20f", ruleTextNoInPlace, 10)
	checkNoInPlaceInput(c, "R20f")
	c.Rule("R20k", ruleTextPreferredSearch, 1)
	checkPreferredSearch(c, "R20k")
	c.Rule("R20l", ruleTextNoSharedHasher, 1)
	checkNoSharedHasher(c, "R20l")
	c.Rule("R20j", ruleTextTotalOrderOverMapKeys, 1)
	checkTotalOrderOverMapKeys(c, "R20j")
	c.Rule("R20h", ruleTextPlannerInputRO, 10)
	checkPlannerInputReadOnly(c, "R20h")
	c.Rule("R20i", "the attribute helpers of sql/schema that promise a new slice (functions taking a []T by value and returning a []T) never build the result in the argument's backing array (`in[:0]`, `append(in[:i], …)`): a caller that does not assign the result back (a read-only diff) would otherwise have its schema's attributes overwritten, and a later marshal or plan of the same schema differs", 2)
	checkSchemaSliceHelpers(c, "R20i")

	sites := collectMapRanges(c)
	for _, s := range sites {
		if reason, ok := mapRangeExceptions[s.key]; ok {
			c.Check("R20a", s.key+"|listed exception", s.pos, true, "%s", reason)
			continue
		}
		c.Check("R20a", s.key, s.pos, len(s.bad) == 0, "iteration over a map has order-dependent effects %v: the result depends on Go's randomised map iteration order (sort the keys, or sort the collected slice before it escapes)", s.bad)
	}
	checkNoSharedState(c)
}

func collectMapRanges(c *Ctx) []mapRangeSite {
	var out []mapRangeSite
	c.AllFuncs(false, func(fi *FuncInfo) {
		p := fi.Pkg.PkgPath
		if !(strings.HasPrefix(p, modRoot+"/sql") || strings.HasPrefix(p, pHCL) || strings.HasPrefix(p, modCmd+"/internal")) {
			return
		}
		if strings.Contains(p, "/internal/migrate/ent") || strings.HasSuffix(p, "/sqliteparse") || strings.Contains(p, "/internal/ci") {
			return
		}
		info := fi.Info()
		n := 0
		ast.Inspect(fi.Decl.Body, func(m ast.Node) bool {
			rs, ok := m.(*ast.RangeStmt)
			if !ok {
				return true
			}
			t := info.TypeOf(rs.X)
			if t == nil {
				return true
			}
			if _, isMap := t.Underlying().(*types.Map); !isMap {
				return true
			}
			n++
			key := fi.Name + "|range " + types.ExprString(rs.X)
			if n > 1 {
				key += "#" + itoa(n)
			}
			s := mapRangeSite{fi: fi, rs: rs, key: key, pos: rs.Pos()}
			classifyMapRange(c, fi, rs, &s)
			out = append(out, s)
			return true
		})
	})
	return out
}

func classifyMapRange(c *Ctx, fi *FuncInfo, rs *ast.RangeStmt, s *mapRangeSite) {
	info := fi.Info()
	loopVars := map[types.Object]bool{}
	for _, e := range []ast.Expr{rs.Key, rs.Value} {
		if id, ok := e.(*ast.Ident); ok && id.Name != "_" {
			loopVars[info.ObjectOf(id)] = true
		}
	}
	// locals derived from loop vars inside the body also count as element-dependent
	dep := func(e ast.Node) bool {
		hit := false
		ast.Inspect(e, func(m ast.Node) bool {
			if id, ok := m.(*ast.Ident); ok && loopVars[info.ObjectOf(id)] {
				hit = true
			}
			return true
		})
		return hit
	}
	ast.Inspect(rs.Body, func(m ast.Node) bool {
		if as, ok := m.(*ast.AssignStmt); ok && as.Tok == token.DEFINE {
			for i, l := range as.Lhs {
				if id, ok := l.(*ast.Ident); ok {
					var r ast.Node = as
					if i < len(as.Rhs) {
						r = as.Rhs[i]
					}
					if dep(r) {
						loopVars[info.ObjectOf(id)] = true
					}
				}
			}
		}
		return true
	})
	declaredInside := func(o types.Object) bool {
		return o != nil && rs.Body.Pos() <= o.Pos() && o.Pos() < rs.Body.End()
	}
	sortedAfter := func(o types.Object) bool {
		found := false
		ast.Inspect(fi.Decl.Body, func(m ast.Node) bool {
			call, ok := m.(*ast.CallExpr)
			if !ok || call.Pos() < rs.End() {
				return true
			}
			fn := calleeOf(info, call)
			if fn == nil || fn.Pkg() == nil {
				return true
			}
			isSort := (fn.Pkg().Path() == "sort" && (strings.HasPrefix(fn.Name(), "S") || fn.Name() == "Strings" || fn.Name() == "Ints")) ||
				(fn.Pkg().Path() == "slices" && strings.HasPrefix(fn.Name(), "Sort"))
			if !isSort || len(call.Args) == 0 {
				return true
			}
			if r := rootIdent(call.Args[0]); r != nil && info.ObjectOf(r) == o {
				found = true
			}
			return true
		})
		return found
	}
	bad := func(f string) {
		s.bad = append(s.bad, f)
	}
	var walk func(n ast.Node)
	walk = func(n ast.Node) {
		ast.Inspect(n, func(m ast.Node) bool {
			switch x := m.(type) {
			case *ast.FuncLit:
				return false
			case *ast.TypeSwitchStmt:
				// the header `x := x.(type)` binds per-clause locals
				walk(x.Body)
				return false
			case *ast.AssignStmt:
				for i, l := range x.Lhs {
					// map / set writes
					if ix, ok := l.(*ast.IndexExpr); ok {
						if _, isMap := info.TypeOf(ix.X).Underlying().(*types.Map); isMap {
							// m[k] = append(m[k], v) is order dependent only within one key, which a map range visits once
							s.effects = append(s.effects, "map-write")
							continue
						}
					}
					root := rootIdent(l)
					var ro types.Object
					if root != nil {
						ro = info.ObjectOf(root)
					}
					if id, ok := l.(*ast.Ident); ok && (id.Name == "_" || declaredInside(info.ObjectOf(id))) {
						continue
					}
					if ro != nil && declaredInside(ro) {
						continue // mutation of a per-iteration local
					}
					var rhs ast.Expr
					if i < len(x.Rhs) {
						rhs = x.Rhs[i]
					} else if len(x.Rhs) == 1 {
						rhs = x.Rhs[0]
					}
					if call, ok := rhs.(*ast.CallExpr); ok && builtinName(info, call) == "append" {
						if ro != nil && sortedAfter(ro) {
							s.effects = append(s.effects, "append+sorted")
						} else {
							bad("append to " + types.ExprString(l) + " (not sorted afterwards in this function)")
						}
						continue
					}
					switch x.Tok {
					case token.ADD_ASSIGN, token.SUB_ASSIGN, token.OR_ASSIGN, token.AND_ASSIGN, token.MUL_ASSIGN:
						if t := info.TypeOf(l); t != nil {
							if b, ok := t.Underlying().(*types.Basic); ok && b.Info()&types.IsString != 0 {
								bad("string concatenation into " + types.ExprString(l))
								continue
							}
						}
						s.effects = append(s.effects, "accumulate")
						continue
					}
					// plain assignment to an outer variable
					if rhs != nil && !dep(rhs) {
						s.effects = append(s.effects, "flag")
						continue
					}
					// last-writer-wins assignment of an element-dependent value
					bad("assignment of an element-dependent value to " + types.ExprString(l))
				}
			case *ast.IncDecStmt:
				s.effects = append(s.effects, "accumulate")
			case *ast.ReturnStmt:
				elemDep := false
				for _, r := range x.Results {
					if dep(r) {
						// errors mentioning the element are accepted only if they are the sole non-nil result
						if t := info.TypeOf(r); t != nil && types.Implements(t, types.Universe.Lookup("error").Type().Underlying().(*types.Interface)) {
							continue // which error is reported first is not part of the deterministic output
						}
						elemDep = true
					}
				}
				if elemDep {
					bad("return of an element-dependent value")
				} else {
					s.effects = append(s.effects, "return")
				}
			case *ast.ExprStmt:
				call, ok := x.X.(*ast.CallExpr)
				if !ok {
					return true
				}
				if b := builtinName(info, call); b == "delete" || b == "panic" || b == "close" {
					s.effects = append(s.effects, b)
					return false
				}
				fn := calleeOf(info, call)
				name := types.ExprString(call.Fun)
				if fn != nil {
					name = fqn(fn)
				}
				// method call on a per-iteration local or on the element itself: confined to the element
				if se, ok := call.Fun.(*ast.SelectorExpr); ok {
					if r := rootIdent(se.X); r != nil {
						ro := info.ObjectOf(r)
						if declaredInside(ro) || loopVars[ro] {
							s.effects = append(s.effects, "element-call")
							return false
						}
					}
				}
				bad("call " + name + " with side effects per element")
				return false
			case *ast.DeferStmt, *ast.GoStmt:
				bad("defer/go per element")
			}
			return true
		})
	}
	walk(rs.Body)
}

func checkNoSharedState(c *Ctx) {
	prog := c.SSA()
	cg := c.CHA()
	var roots []*ssa.Function
	addRoot := func(pkg, recv, name string) {
		fi := c.LookupFunc(pkg, recv, name)
		if fi == nil {
			c.Unresolved("R20b", "entry point "+shortPkg(pkg)+"."+name)
			return
		}
		if sf := prog.FuncValue(fi.Obj); sf != nil {
			roots = append(roots, sf)
		}
	}
	for _, pp := range []string{pMysql, pPostgres, pSqlite} {
		addRoot(pp, "planApply", "PlanChanges")
	}
	addRoot(pSqlx, "Diff", "RealmDiff")
	addRoot(pSqlx, "Diff", "SchemaDiff")
	addRoot(pSqlx, "Diff", "TableDiff")
	addRoot(pMigrate, "TemplateFormatter", "Format")
	addRoot(pMigrate, "", "NewHashFile")
	addRoot(pHCL, "State", "MarshalSpec")
	addRoot(pSpecutil, "", "Marshal")
	reach := cg.ReachSet(roots, func(f *ssa.Function) bool {
		if !inRepo(f) {
			return false
		}
		p := objPkgPath(topParent(f))
		return !strings.Contains(p, "/internal/migrate/ent") && !strings.HasSuffix(p, "parse")
	})
	// R20g: no ambient input (clock, randomness, environment, host) in the same reachable set
	nAmbient, nFuncs := 0, 0
	for f := range reach {
		if f.Blocks == nil || strings.HasSuffix(c.Fset.Position(f.Pos()).Filename, "_test.go") {
			continue
		}
		nFuncs++
		for _, b := range f.Blocks {
			for _, in := range b.Instrs {
				call, ok := in.(ssa.CallInstruction)
				if !ok {
					continue
				}
				callee := call.Common().StaticCallee()
				if callee == nil || callee.Pkg == nil {
					continue
				}
				pp, name := callee.Pkg.Pkg.Path(), callee.Name()
				ambient := false
				switch pp {
				case "time":
					ambient = name == "Now" || name == "Since" || name == "Until"
				case "math/rand", "math/rand/v2", "crypto/rand":
					ambient = true
				case "os":
					ambient = name == "Getenv" || name == "LookupEnv" || name == "Hostname" || name == "Getpid" || name == "Getwd" || name == "Environ"
				}
				if ambient {
					nAmbient++
					c.Check("R20g", shortFn(f.String())+"|calls "+pp+"."+name, in.Pos(), false, "%s is reachable from the planners / differs / marshallers / formatter / checksum and reads %s.%s: the same inputs can give different output bytes", shortFn(f.String()), pp, name)
				}
			}
		}
	}
	c.Check("R20g", "no ambient input in "+itoa(nFuncs)+" reachable functions", token.NoPos, nAmbient == 0 && nFuncs > 100, "ambient inputs found (or the reachable set collapsed to %d functions)", nFuncs)
	type hit struct {
		fn, glob string
		pos      token.Pos
	}
	var hits []hit
	for f := range reach {
		if f.Blocks == nil || strings.HasSuffix(c.Fset.Position(f.Pos()).Filename, "_test.go") {
			continue
		}
		if f.Name() == "init" || strings.HasPrefix(f.Name(), "init#") {
			continue
		}
		for _, b := range f.Blocks {
			for _, in := range b.Instrs {
				if mu, ok := in.(*ssa.MapUpdate); ok {
					if u, ok := mu.Map.(*ssa.UnOp); ok {
						if g, ok := u.X.(*ssa.Global); ok && g.Pkg != nil && strings.HasPrefix(g.Pkg.Pkg.Path(), modRoot) {
							hits = append(hits, hit{f.String(), g.Name() + "[…]", in.Pos()})
						}
					}
					continue
				}
				st, ok := in.(*ssa.Store)
				if !ok {
					continue
				}
				addr := st.Addr
				for {
					switch x := addr.(type) {
					case *ssa.FieldAddr:
						addr = x.X
						continue
					case *ssa.IndexAddr:
						addr = x.X
						continue
					}
					break
				}
				if g, ok := addr.(*ssa.Global); ok && g.Pkg != nil && strings.HasPrefix(g.Pkg.Pkg.Path(), modRoot) {
					hits = append(hits, hit{f.String(), g.Name(), in.Pos()})
				}
			}
		}
	}
	sort.Slice(hits, func(i, j int) bool { return hits[i].fn+hits[i].glob < hits[j].fn+hits[j].glob })
	seen := map[string]bool{}
	for _, h := range hits {
		k := shortFn(h.fn) + "|writes package variable " + h.glob
		if seen[k] {
			continue
		}
		seen[k] = true
		c.Check("R20b", k, h.pos, false, "%s (reachable from a planner / differ / marshal / format / checksum entry point) writes the package-level variable %s: concurrent or repeated operations can influence each other's output", shortFn(h.fn), h.glob)
	}
	c.Check("R20b", "entry points|no package-level stores reachable", token.NoPos, len(seen) == 0, "%d package-level stores reachable", len(seen))
	// positive control: the same matcher must find the known registry writers outside the reachable set
	ctl := 0
	for f := range cg.g.Nodes {
		if f == nil || f.Blocks == nil || !inRepo(f) {
			continue
		}
		for _, b := range f.Blocks {
			for _, in := range b.Instrs {
				if mu, ok := in.(*ssa.MapUpdate); ok {
					if u, ok := mu.Map.(*ssa.UnOp); ok {
						if g, ok := u.X.(*ssa.Global); ok && g.Pkg != nil && strings.HasPrefix(g.Pkg.Pkg.Path(), modRoot) {
							ctl++
						}
					}
				}
				if st, ok := in.(*ssa.Store); ok {
					if g, ok := st.Addr.(*ssa.Global); ok && g.Pkg != nil && strings.HasPrefix(g.Pkg.Pkg.Path(), modRoot) && f.Name() != "init" {
						ctl++
					}
				}
			}
		}
	}
	c.Check("R20b", "positive control|package-level writers exist outside the planning paths", token.NoPos, ctl > 0, "the package-variable store matcher finds no writer anywhere in the repository: it would pass vacuously")
	c.Note("R20b: %d functions reachable from %d entry points examined for stores to package-level variables", len(reach), len(roots))
	// PlanChanges: fresh state per call, no store into the receiver
	for _, pp := range []string{pMysql, pPostgres, pSqlite} {
		fi := c.Func("R20b", pp, "planApply", "PlanChanges")
		if fi == nil {
			continue
		}
		info := fi.Info()
		fresh := false
		freshLit := func(inf *types.Info, body *ast.BlockStmt) bool {
			hit := false
			ast.Inspect(body, func(m ast.Node) bool {
				if un, ok := m.(*ast.UnaryExpr); ok && un.Op == token.AND {
					if cl, ok := un.X.(*ast.CompositeLit); ok && typeIs(inf.TypeOf(cl), pp, "state") {
						hit = true
					}
				}
				return true
			})
			return hit
		}
		fresh = freshLit(info, fi.Decl.Body)
		if !fresh {
			// a package-local constructor that builds the state literal (and stores nothing package-level: covered above)
			for _, call := range callsIn(fi.Decl.Body, false) {
				fn := calleeOf(info, call)
				if fn == nil || fn.Pkg() == nil || fn.Pkg().Path() != pp {
					continue
				}
				sig := fn.Type().(*types.Signature)
				if sig.Results().Len() < 1 || !typeIs(derefType(sig.Results().At(0).Type()), pp, "state") {
					continue
				}
				if g := c.FuncInfoOf(fn); g != nil && g.Decl.Body != nil && freshLit(g.Info(), g.Decl.Body) {
					fresh = true
				}
			}
		}
		var recv types.Object
		if len(fi.Decl.Recv.List[0].Names) > 0 {
			recv = info.ObjectOf(fi.Decl.Recv.List[0].Names[0])
		}
		storesRecv := false
		for _, l := range writesIn(fi.Decl.Body) {
			if r := rootIdent(l); r != nil && recv != nil && info.ObjectOf(r) == recv {
				if _, isID := l.(*ast.Ident); !isID {
					storesRecv = true
				}
			}
		}
		c.Check("R20b", shortPkg(pp)+".PlanChanges|fresh state per call, receiver not mutated", fi.Decl.Pos(), fresh && !storesRecv, "PlanChanges must allocate a new planning state for every call and must not store into its receiver (fresh=%v storesReceiver=%v)", fresh, storesRecv)
	}
}

func checkFilesOrdering(c *Ctx, rule string) {
	dir := c.dirIface()
	n := 0
	c.AllFuncs(false, func(fi *FuncInfo) {
		if fi.Decl.Name.Name != "Files" || fi.Decl.Recv == nil {
			return
		}
		info := fi.Info()
		if !implementsDir(info.TypeOf(fi.Decl.Recv.List[0].Type), dir) {
			return
		}
		// sort calls in the body
		ast.Inspect(fi.Decl.Body, func(m ast.Node) bool {
			call, ok := m.(*ast.CallExpr)
			if !ok {
				return true
			}
			fn := calleeOf(info, call)
			if fn == nil || fn.Pkg() == nil {
				return true
			}
			switch fn.Pkg().Path() + "." + fn.Name() {
			case "sort.Strings", "slices.Sort":
				n++
				c.Check(rule, fi.Name+"|orders by name", call.Pos(), true, "")
			case "sort.Slice", "sort.SliceStable", "slices.SortFunc":
				n++
				fl, ok := call.Args[len(call.Args)-1].(*ast.FuncLit)
				byName, onlyName := false, true
				if ok {
					// three-way comparators: strings.Compare(a.Name(), b.Name()) / cmp.Compare(…)
					ast.Inspect(fl.Body, func(k ast.Node) bool {
						ce, isCall := k.(*ast.CallExpr)
						if !isCall || len(ce.Args) != 2 {
							return true
						}
						g := calleeOf(info, ce)
						if g == nil || g.Pkg() == nil || g.Name() != "Compare" || (g.Pkg().Path() != "strings" && g.Pkg().Path() != "cmp") {
							return true
						}
						nameCall := func(e ast.Expr) bool {
							if ic, ok := ast.Unparen(e).(*ast.CallExpr); ok {
								if se, ok := ic.Fun.(*ast.SelectorExpr); ok && se.Sel.Name == "Name" {
									return true
								}
							}
							if t := info.TypeOf(e); t != nil {
								if b, ok := t.Underlying().(*types.Basic); ok && b.Info()&types.IsString != 0 {
									if _, isIdx := ast.Unparen(e).(*ast.IndexExpr); isIdx {
										return true
									}
								}
							}
							return false
						}
						if nameCall(ce.Args[0]) && nameCall(ce.Args[1]) {
							byName = true
						} else {
							onlyName = false
						}
						return true
					})
					ast.Inspect(fl.Body, func(k ast.Node) bool {
						be, ok := k.(*ast.BinaryExpr)
						if !ok || (be.Op != token.LSS && be.Op != token.GTR) {
							return true
						}
						isName := func(e ast.Expr) bool {
							if ic, ok := e.(*ast.CallExpr); ok {
								if se, ok := ic.Fun.(*ast.SelectorExpr); ok && se.Sel.Name == "Name" {
									return true
								}
							}
							// plain string elements of a slice of names
							if ix, ok := e.(*ast.IndexExpr); ok {
								if t := info.TypeOf(ix); t != nil {
									if b, ok := t.Underlying().(*types.Basic); ok && b.Info()&types.IsString != 0 {
										return true
									}
								}
							}
							return false
						}
						resolve := func(e ast.Expr) ast.Expr {
							id, ok := e.(*ast.Ident)
							if !ok {
								return e
							}
							o := info.ObjectOf(id)
							var def ast.Expr
							ast.Inspect(fl.Body, func(q ast.Node) bool {
								if as, ok := q.(*ast.AssignStmt); ok && len(as.Lhs) == len(as.Rhs) {
									for i, l := range as.Lhs {
										if li, ok := l.(*ast.Ident); ok && info.ObjectOf(li) == o {
											def = as.Rhs[i]
										}
									}
								}
								return true
							})
							if def != nil {
								return def
							}
							return e
						}
						if isName(resolve(be.X)) && isName(resolve(be.Y)) {
							byName = true
						} else {
							onlyName = false // another key decides first: the order differs from the siblings' plain name order
						}
						return true
					})
				}
				c.Check(rule, fi.Name+"|orders by name", call.Pos(), byName && onlyName, "%s sorts the directory listing with a comparator that does not order by file name alone: files with equal keys keep the (random) order of the underlying map / listing, so the same directory hashes differently from run to run and differs from the other Dir implementations", fi.Name)
			}
			return true
		})
	})
	if n == 0 {
		c.Unresolved(rule, "sort calls in Dir.Files implementations")
	}
}

func checkPlanningPurity(c *Ctx) {
	for _, name := range []string{"detachReferences", "DetachCycles", "SortChanges", "dependencies", "sortMap"} {
		fi := c.Func("R20d", pSqlx, "", name)
		if fi == nil {
			continue
		}
		info := fi.Info()
		bad := ""
		for _, l := range writesIn(fi.Decl.Body) {
			se, ok := l.(*ast.SelectorExpr)
			if !ok {
				continue
			}
			bt := info.TypeOf(se.X)
			pt, isPtr := bt.(*types.Pointer)
			if !isPtr {
				continue // field of a local struct copy
			}
			if n := namedOf(pt); n != nil && n.Obj().Pkg() != nil && n.Obj().Pkg().Path() == pSchema {
				bad = types.ExprString(l) + " at " + c.pos(l.Pos())
			}
		}
		c.Check("R20d", "sqlx."+name+"|no store into schema objects through pointers", fi.Decl.Pos(), bad == "", "%s stores into %s: the caller's schema objects are modified by planning, so planning the same change set again (schema apply plans twice) gives a different result", name, bad)
	}
}
