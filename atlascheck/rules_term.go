package main

import (
	"go/ast"
	"go/types"

	"golang.org/x/tools/go/cfg"
)

// R08g: every loop of the scanner makes progress.
//
// The scanner terminates on every input if each iteration of each of its loops
// either consumes input or leaves the loop, and the end of the input leaves it:
//   - progress: on every path from the loop body's entry back to it, a call is
//     made that consumes input — Scanner.next (at least one byte unless at the
//     end), a nested scanner's stmt/Scan, or a helper reaching one of those;
//   - exit at the end: the result of that call is compared with the end marker
//     (eos, io.EOF or a non-nil error) somewhere in the loop (condition or body).
//
// Loops that range over a finite collection or count up to a bound that the
// body does not modify terminate by themselves and are listed as such.
const ruleTextLoopProgress = "every loop of the statement scanner makes progress: on every path through one iteration a call consumes input (Scanner.next, a nested scanner's stmt, or a helper reaching them) and the end marker returned by that call (eos / io.EOF / an error) is tested in the loop; range loops and counted loops over unmodified bounds are finite by construction"

func checkLoopProgress(c *Ctx, rule string) {
	n := 0
	consumes := func(fn *types.Func, _ *ast.CallExpr) bool {
		return funcIs(fn, pMigrate, "Scanner", "next") || funcIs(fn, pMigrate, "Scanner", "stmt") || funcIs(fn, pMigrate, "Scanner", "Scan")
	}
	c.AllFuncs(false, func(fi *FuncInfo) {
		if fi.Pkg.PkgPath != pMigrate || recvName(fi.Decl) != "Scanner" {
			return
		}
		info := fi.Info()
		var loops []*ast.ForStmt
		ast.Inspect(fi.Decl.Body, func(m ast.Node) bool {
			if l, ok := m.(*ast.ForStmt); ok {
				loops = append(loops, l)
			}
			return true
		})
		if len(loops) == 0 {
			return
		}
		f := newFlow(info, fi.Decl.Body)
		isProgress := func(nd ast.Node) bool { return nodeHasCall(info, nd, c.viaHelpers(consumes, 2)) != nil }
		for _, loop := range loops {
			n++
			c.funcs[fi.Name] = true
			key := fi.Name + "|loop at line " + itoa(posLine(c.Fset, loop.Pos())-posLine(c.Fset, fi.Decl.Pos())) + " of the function"
			// counted loop: for i := …; i < bound; i++ with i and bound untouched in the body
			if counted(info, loop) {
				c.Check(rule, key+" is counted", loop.Pos(), true, "")
				continue
			}
			// the body block of this loop
			var body *cfg.Block
			for _, b := range f.G.Blocks {
				if b.Kind == cfg.KindForBody && b.Stmt == ast.Stmt(loop) {
					body = b
				}
			}
			if body == nil {
				c.Unresolved(rule, key+": body block in the control-flow graph")
				continue
			}
			// can the body be re-entered without a progress call?
			seen := map[*cfg.Block]bool{}
			stuck := false
			var walk func(b *cfg.Block, from int)
			walk = func(b *cfg.Block, from int) {
				for i := from; i < len(b.Nodes); i++ {
					if isProgress(b.Nodes[i]) || isReturn(b.Nodes[i]) {
						return
					}
				}
				for _, s := range b.Succs {
					if s == body {
						stuck = true
						return
					}
					if !seen[s] {
						seen[s] = true
						walk(s, 0)
					}
				}
			}
			walk(body, 0)
			// the end marker is tested inside the loop
			tested := false
			ast.Inspect(loop, func(m ast.Node) bool {
				be, ok := m.(*ast.BinaryExpr)
				if !ok {
					return true
				}
				for _, e := range []ast.Expr{be.X, be.Y} {
					switch x := ast.Unparen(e).(type) {
					case *ast.Ident:
						if x.Name == "eos" || x.Name == "nil" {
							tested = true
						}
					case *ast.SelectorExpr:
						if x.Sel.Name == "EOF" {
							tested = true
						}
					}
				}
				return true
			})
			c.Check(rule, key+" consumes input on every iteration and stops at the end", loop.Pos(), !stuck && tested, "%s: the loop can start another iteration without having consumed any input (no path-wise call of Scanner.next / a nested scanner) or never tests the end marker: the scanner does not terminate on some input (progress on every path: %v, end marker tested: %v)", fi.Name, !stuck, tested)
		}
	})
	if n < 5 {
		c.Unresolved(rule, "loops in the methods of migrate.Scanner (found fewer than 5)")
	}
}

// counted: for i := a; i <op> b; i++/i-- where the body does not assign i.
func counted(info *types.Info, loop *ast.ForStmt) bool {
	init, ok := loop.Init.(*ast.AssignStmt)
	if !ok || len(init.Lhs) != 1 {
		return false
	}
	iv, ok := init.Lhs[0].(*ast.Ident)
	if !ok {
		return false
	}
	post, ok := loop.Post.(*ast.IncDecStmt)
	if !ok {
		return false
	}
	if id, ok := post.X.(*ast.Ident); !ok || info.ObjectOf(id) != info.ObjectOf(iv) {
		return false
	}
	cond, ok := loop.Cond.(*ast.BinaryExpr)
	if !ok {
		return false
	}
	if id, ok := ast.Unparen(cond.X).(*ast.Ident); !ok || info.ObjectOf(id) != info.ObjectOf(iv) {
		return false
	}
	// the bound must not be a call with side effects on the scanner: accept len(x), identifiers, constants, selectors
	switch b := ast.Unparen(cond.Y).(type) {
	case *ast.CallExpr:
		if builtinName(info, b) != "len" {
			return false
		}
	case *ast.Ident, *ast.BasicLit, *ast.SelectorExpr:
	default:
		return false
	}
	written := false
	ast.Inspect(loop.Body, func(m ast.Node) bool {
		switch x := m.(type) {
		case *ast.AssignStmt:
			for _, l := range x.Lhs {
				if id, ok := l.(*ast.Ident); ok && info.ObjectOf(id) == info.ObjectOf(iv) {
					written = true
				}
			}
		case *ast.IncDecStmt:
			if id, ok := x.X.(*ast.Ident); ok && info.ObjectOf(id) == info.ObjectOf(iv) {
				written = true
			}
		}
		return true
	})
	return !written
}
