package main

import (
	"golang.org/x/tools/go/cfg"

	"go/ast"
	"go/token"
	"go/types"
	"sort"
	"strings"
)

func init() {
	register("C02", &propCheck{
		explanation: "Structural rules on the differs. (a) Reportable bits: for each comparison function (shared fkChange / indexChange / partsChange / CommentChange and each dialect's ColumnChange) the set of ChangeKind constants that can be or-ed into its result, computed through its callees, must contain the kinds confirmed on the reference tree: no attribute comparison can silently stop reporting. (b) Bit/guard association: every `change |= ChangeX` is guarded by a comparison of the attribute X names (field pair or *Changed helper), and no two different bits share the same guard (copy-paste detection). (c) From/to symmetry: in every function taking two values of the same schema type, a direct comparison of selector paths rooted at the two parameters uses the same path on both sides. (d) Every change the differ constructs is control-dependent on a condition, so a schema compared with itself can only produce an empty diff if all comparisons are symmetric; the skip filter is applied on every path (shared with C19). (e) SQLite: generated numeric foreign-key symbols are never used as identity.",
		undecided:   []string{"candidate matching (which index/fk/check of the other side an object is compared with) for every edit set", "exactly-once counting over all sets of edits", "value-level normalisation (type aliases, default expression forms)"},
		run:         runC02,
	})
}

// requiredBits: function → ChangeKind constants it must be able to report.
var requiredBits = []struct {
	pkg, recv, name string
	bits            []string
}{
	{pSqlx, "Diff", "fkChange", []string{"ChangeRefTable", "ChangeRefColumn", "ChangeColumn", "ChangeUpdateAction", "ChangeDeleteAction", "ChangeAttr"}},
	{pSqlx, "Diff", "indexChange", []string{"ChangeUnique", "ChangeAttr", "ChangeParts", "ChangeComment"}},
	{pSqlx, "Diff", "partsChange", []string{"ChangeParts"}},
	{pSqlx, "", "CommentChange", []string{"ChangeComment"}},
	{pSqlite, "diff", "ColumnChange", []string{"ChangeNull", "ChangeType", "ChangeDefault", "ChangeGenerated"}},
	{pMysql, "diff", "ColumnChange", []string{"ChangeNull", "ChangeType", "ChangeDefault", "ChangeGenerated", "ChangeComment", "ChangeCharset", "ChangeCollate"}},
	{pPostgres, "diff", "ColumnChange", []string{"ChangeNull", "ChangeType", "ChangeDefault", "ChangeGenerated", "ChangeComment", "ChangeAttr"}},
}

// bitStem: which attribute name a bit is about (substring of the guard source, case-insensitive).
var bitStem = map[string][]string{
	"ChangeNull": {"null"}, "ChangeType": {"type"}, "ChangeDefault": {"default"}, "ChangeGenerated": {"generated"},
	"ChangeCharset": {"charset"}, "ChangeCollate": {"collat"}, "ChangeComment": {"comment"}, "ChangeUnique": {"unique"},
	"ChangeUpdateAction": {"onupdate"}, "ChangeDeleteAction": {"ondelete"}, "ChangeRefTable": {"reftable"},
	"ChangeRefColumn": {"refcolumn", "reftable"}, "ChangeColumn": {"columns"}, "ChangeAttr": {"attr", "identity"}, "ChangeParts": {"parts", "desc", ".c", ".x", "len(", "indexpartattr", "default"},
}

func runC02(c *Ctx) {
	c.Rule("R02a", "reportable bits: the ChangeKind constants reachable in each comparison function (through its same-package callees) include every kind confirmed on the reference tree", 7)
	c.Rule("R02f", "bit/guard association: each `change |= ChangeX` (or `return ChangeX`) in the comparison functions is guarded by a comparison that mentions the attribute X names, and no two different bits share an identical guard", 15)
	c.Rule("R02c", "from/to symmetry: in functions with two parameters of the same schema type, a direct comparison whose operands are selector paths rooted at the two parameters uses the same path on both sides", 8)
	c.Rule("R02h", "no unconditional change: in every comparison function of the differ files (two parameters of the same schema type) each change literal can be avoided within its loop iteration / function (it is control-dependent on a comparison): a schema compared with itself cannot produce it unless a comparison says so", 12)
	c.Rule("R02d", "skip filter on every path (E-flow; same analysis as C19/R19a): no skippable kind reaches a differ result or a nested Changes field unfiltered", 4)
	c.Rule("R02i", "identity by name first: in sqlx.ChecksDiff the matcher falls back to the expression comparison only on paths where at least one of the two constraint names is empty (two named constraints are the same constraint iff their names are equal)", 1)
	c.Rule("R02j", "side purity: in the differ files, when two variables of the same type are compared attribute by attribute (A.p == B.p), no assignment makes an attribute of one a function of the other", 10)
	c.Rule("R02g", "sqlite: a generated numeric foreign-key symbol is never an identity: every equality test between two ForeignKey.Symbol values in the SQLite differ is conjoined with !IsUint(symbol)", 1)

	// ---- R02a
	for _, rb := range requiredBits {
		fi := c.Func("R02a", rb.pkg, rb.recv, rb.name)
		if fi == nil {
			continue
		}
		got := map[string]bool{}
		seen := map[*types.Func]bool{}
		var visit func(fi *FuncInfo, depth int)
		visit = func(fi *FuncInfo, depth int) {
			if seen[fi.Obj] || depth > 3 {
				return
			}
			seen[fi.Obj] = true
			ast.Inspect(fi.Decl.Body, func(m ast.Node) bool {
				switch x := m.(type) {
				case *ast.SelectorExpr:
					if o, ok := fi.Info().Uses[x.Sel].(*types.Const); ok && o.Pkg() != nil && o.Pkg().Path() == pSchema && strings.HasPrefix(o.Name(), "Change") && typeIs(o.Type(), pSchema, "ChangeKind") {
						got[o.Name()] = true
					}
				case *ast.Ident:
					if o, ok := fi.Info().Uses[x].(*types.Const); ok && o.Pkg() != nil && o.Pkg().Path() == pSchema && strings.HasPrefix(o.Name(), "Change") && typeIs(o.Type(), pSchema, "ChangeKind") {
						got[o.Name()] = true
					}
				case *ast.CallExpr:
					if fn := calleeOf(fi.Info(), x); fn != nil && fn.Pkg() != nil && (fn.Pkg().Path() == fi.Pkg.PkgPath || fn.Pkg().Path() == pSqlx) {
						if cf := c.FuncInfoOf(fn); cf != nil {
							visit(cf, depth+1)
						}
					}
				}
				return true
			})
		}
		visit(fi, 0)
		var missing []string
		for _, b := range rb.bits {
			if !got[b] {
				missing = append(missing, b)
			}
		}
		c.Check("R02a", fi.Name+"|reportable kinds ⊇ "+strings.Join(rb.bits, ","), fi.Decl.Pos(), len(missing) == 0, "%s can no longer report %v: an edit of that attribute produces no change (or the wrong kind flag)", fi.Name, missing)
	}

	// ---- R02f
	for _, rb := range requiredBits {
		if fi := c.LookupFunc(rb.pkg, rb.recv, rb.name); fi != nil {
			checkBitGuards(c, fi)
		}
	}

	// ---- R02c
	symmetryLint(c)

	// ---- R02i / R02j
	checkNameIdentity(c)
	sidePurityLint(c)
	c.Rule("R02k", ruleTextMayWrapSymmetric, 5)
	checkMayWrapSymmetric(c, "R02k")
	c.Rule("R02l", ruleTextPartsAlias, 1)
	checkPartsAlias(c, "R02l")
	c.Rule("R02r", ruleTextMatchedMarked, 2)
	checkMatchedMarked(c, "R02r")
	c.Rule("R02u", ruleTextNormaliseOwnSide, 2)
	checkNormaliseOwnSide(c, "R02u")
	c.Rule("R02t", ruleTextTrimSelfCutset, 1)
	checkTrimSelfCutset(c, "R02t")
	c.Rule("R02s", ruleTextBothParamsUsed, 20)
	checkBothParamsUsed(c, "R02s")
	c.Rule("R02q", "validity of sqlx.Has targets inside conjunctions: in the differ files, a conjunction (a && b && …) that consults at least one `ok := sqlx.Has(attrs, &v)` flag reads a field of a Has target only if that target's own flag is a positive conjunct of the same conjunction", 5)
	c.Rule("R02n", ruleTextHasValidity, 3)
	checkHasValidity(c, "R02n")
	c.Rule("R02o", ruleTextNoSelfCompare, 20)
	checkNoSelfCompare(c, "R02o")
	c.Rule("R02p", ruleTextMariaFilter, 1)
	checkMariaFilter(c, "R02p")
	c.Rule("R02m", "SQLite default comparison is exact (same rule as C01/R01g): a default that differs only in the letter case of a string literal is a change", 2)
	checkExactDefaultsRule(c, "R02m")

	// ---- R02h
	checkConditionalChanges(c)

	// ---- R02d
	a := c.Flow()
	skippable := skippableKinds(c, "R02d")
	skipSet := map[string]bool{}
	for _, k := range skippable {
		skipSet[k] = true
	}
	for _, n := range []string{"RealmDiff", "SchemaDiff", "TableDiff"} {
		r := a.Ret("(*"+pSqlx+".Diff)."+n, 0)
		if r == nil {
			c.Unresolved("R02d", "E-flow result for "+n)
			continue
		}
		var bad []string
		for k := range concrete(r.unf) {
			if skipSet[k] {
				bad = append(bad, k)
			}
		}
		sort.Strings(bad)
		c.Check("R02d", "sqlx.(Diff)."+n+"|result unfiltered kinds", token.NoPos, len(bad) == 0, "skippable kinds reach the result of %s without passing AddOrSkip: %v", n, bad)
	}
	nSink := 0
	for _, h := range a.sinks {
		if skipSet[h.Kind] && strings.Contains(h.Fn, "sqlx.Diff") {
			nSink++
		}
	}
	c.Check("R02d", "differ|nested stores filtered", token.NoPos, nSink == 0, "%d unfiltered nested stores inside Diff methods", nSink)

	// ---- R02g
	n := 0
	c.AllFuncs(false, func(fi *FuncInfo) {
		if fi.Pkg.PkgPath != pSqlite || !strings.HasSuffix(c.Fset.Position(fi.Decl.Pos()).Filename, "/diff.go") {
			return
		}
		info := fi.Info()
		pm := parentMap(fi.Decl.Body)
		ast.Inspect(fi.Decl.Body, func(m ast.Node) bool {
			be, ok := m.(*ast.BinaryExpr)
			if !ok || be.Op != token.EQL || !isField(info, be.X, pSchema, "ForeignKey", "Symbol") || !isField(info, be.Y, pSchema, "ForeignKey", "Symbol") {
				return true
			}
			n++
			// the nearest enclosing && chain must contain !IsUint(...)
			guarded := false
			for p := pm[be]; p != nil; p = pm[p] {
				pb, isBin := p.(*ast.BinaryExpr)
				if !isBin || pb.Op != token.LAND {
					if _, isParen := p.(*ast.ParenExpr); isParen {
						continue
					}
					break
				}
				for _, f := range impliedFacts(pb, true) {
					if call, isCall := f.expr.(*ast.CallExpr); isCall && !f.val && funcIs(calleeOf(info, call), pSqlx, "", "IsUint") {
						guarded = true
					}
				}
			}
			c.Check("R02g", fi.Name+"|Symbol equality guarded by !IsUint", be.Pos(), guarded, "two foreign keys are matched by equal Symbol without excluding generated numeric symbols: unnamed keys listed in another order are paired with the wrong key and reported as modified/added")
			return true
		})
	})
	if n == 0 {
		c.Unresolved("R02g", "sqlite differ: comparison of ForeignKey.Symbol values")
	}
}

// exprPath renders selector/index chains ("from[].Desc"); "" if e is not one.
func exprPath(info *types.Info, e ast.Expr) string {
	switch x := e.(type) {
	case *ast.Ident:
		// locals of a named type carry the type name (c1.Text of a schema.Comment → "Comment:c1.Text")
		if v, ok := info.ObjectOf(x).(*types.Var); ok && !v.IsField() {
			if n := namedOf(v.Type()); n != nil {
				return n.Obj().Name() + ":" + x.Name
			}
		}
		return x.Name
	case *ast.SelectorExpr:
		p := exprPath(info, x.X)
		if p == "" {
			return ""
		}
		return p + "." + x.Sel.Name
	case *ast.IndexExpr:
		p := exprPath(info, x.X)
		if p == "" {
			return ""
		}
		return p + "[]"
	case *ast.ParenExpr:
		return exprPath(info, x.X)
	case *ast.StarExpr:
		return exprPath(info, x.X)
	case *ast.TypeAssertExpr:
		return exprPath(info, x.X)
	}
	return ""
}

// guardSource describes what a condition depends on: selector paths rooted
// at parameters and names of called helpers.
func guardSource(info *types.Info, fi *FuncInfo, cond ast.Expr, at token.Pos) string {
	var parts []string
	seen := map[string]bool{}
	add := func(s string) {
		if !seen[s] {
			seen[s] = true
			parts = append(parts, s)
		}
	}
	var visit func(e ast.Node)
	visit = func(e ast.Node) {
		ast.Inspect(e, func(m ast.Node) bool {
			switch x := m.(type) {
			case *ast.CallExpr:
				if b := builtinName(info, x); b != "" {
					add(b + "(")
					return true
				}
				if fn := calleeOf(info, x); fn != nil {
					add(fn.Name() + "()")
					// a package-local predicate: what it looks at counts as part of the guard
					if fn.Pkg() != nil && fi.Pkg.Types == fn.Pkg() {
						for _, f := range fi.Pkg.Syntax {
							for _, d := range f.Decls {
								fd, ok := d.(*ast.FuncDecl)
								if !ok || fd.Body == nil || fi.Pkg.TypesInfo.Defs[fd.Name] != types.Object(fn) {
									continue
								}
								ast.Inspect(fd.Body, func(q ast.Node) bool {
									switch y := q.(type) {
									case *ast.SelectorExpr:
										if _, isField := fi.Pkg.TypesInfo.Selections[y]; isField {
											add("." + y.Sel.Name)
										}
									case *ast.CompositeLit:
										if y.Type != nil {
											add(types.ExprString(y.Type) + "{}")
										}
									}
									return true
								})
							}
						}
					}
				}
			case *ast.SelectorExpr:
				if p := exprPath(info, x); p != "" {
					add(p)
					return false
				}
			case *ast.IndexExpr:
				if p := exprPath(info, x); p != "" {
					add(p)
					return false
				}
			case *ast.Ident:
				// a local bool: trace back to its most recent assignment before `at`
				o := info.ObjectOf(x)
				if v, ok := o.(*types.Var); ok && !v.IsField() {
					if b, ok := v.Type().Underlying().(*types.Basic); ok && b.Kind() == types.Bool {
						var best *ast.AssignStmt
						ast.Inspect(fi.Decl.Body, func(k ast.Node) bool {
							as, ok := k.(*ast.AssignStmt)
							if !ok || as.Pos() >= at {
								return true
							}
							for _, l := range as.Lhs {
								if id, ok := l.(*ast.Ident); ok && info.ObjectOf(id) == o {
									if best == nil || as.Pos() > best.Pos() {
										best = as
									}
								}
							}
							return true
						})
						if best != nil {
							for _, r := range best.Rhs {
								visit(r)
							}
						}
					}
				}
			}
			return true
		})
	}
	visit(cond)
	sort.Strings(parts)
	return strings.Join(parts, " ")
}

func checkBitGuards(c *Ctx, fi *FuncInfo) {
	info := fi.Info()
	pm := parentMap(fi.Decl.Body)
	type site struct {
		bit, guard string
		pos        token.Pos
	}
	var sites []site
	bitsIn := func(e ast.Expr) []string {
		var out []string
		ast.Inspect(e, func(m ast.Node) bool {
			if se, ok := m.(*ast.SelectorExpr); ok {
				if o, ok := info.Uses[se.Sel].(*types.Const); ok && o.Pkg() != nil && o.Pkg().Path() == pSchema && strings.HasPrefix(o.Name(), "Change") && o.Name() != "ChangeKind" {
					out = append(out, o.Name())
				}
			}
			return true
		})
		return out
	}
	ast.Inspect(fi.Decl.Body, func(m ast.Node) bool {
		var rhs ast.Expr
		switch x := m.(type) {
		case *ast.AssignStmt:
			if x.Tok == token.OR_ASSIGN && len(x.Rhs) == 1 {
				rhs = x.Rhs[0]
			}
		case *ast.ReturnStmt:
			if len(x.Results) >= 1 {
				rhs = x.Results[0]
			}
		}
		if rhs == nil {
			return true
		}
		bits := bitsIn(rhs)
		if len(bits) == 0 {
			return true
		}
		// enclosing guards up to the function (if conditions, case expressions)
		var guards []string
		child := m
		for p := pm[m]; p != nil; child, p = p, pm[p] {
			switch g := p.(type) {
			case *ast.IfStmt:
				if child == ast.Node(g.Body) {
					guards = append(guards, guardSource(info, fi, g.Cond, g.Body.Pos()))
				}
			case *ast.CaseClause:
				for _, e := range g.List {
					guards = append(guards, guardSource(info, fi, e, g.Pos()))
				}
				if g.List == nil {
					guards = append(guards, "default")
				}
			}
		}
		if len(guards) == 0 {
			return true // unconditional contributions (e.g. change |= helper()) are covered by the helper itself
		}
		for _, b := range bits {
			sites = append(sites, site{b, strings.Join(guards, " & "), m.Pos()})
		}
		return true
	})
	// association
	for _, s := range sites {
		stems, known := bitStem[s.bit]
		if !known {
			continue
		}
		ok := false
		low := strings.ToLower(s.guard)
		for _, st := range stems {
			if strings.Contains(low, st) {
				ok = true
			}
		}
		c.Check("R02f", fi.Name+"|"+s.bit+" guarded by its attribute", s.pos, ok, "%s is set under the guard {%s}, which does not compare the attribute the bit stands for (expected one of %v): an edit of one attribute is reported as another", s.bit, s.guard, stems)
	}
	// duplicates: two different single bits with an identical innermost guard
	byGuard := map[string]map[string]bool{}
	for _, s := range sites {
		if byGuard[s.guard] == nil {
			byGuard[s.guard] = map[string]bool{}
		}
		byGuard[s.guard][s.bit] = true
	}
	var gs []string
	for g := range byGuard {
		gs = append(gs, g)
	}
	sort.Strings(gs)
	for _, g := range gs {
		bits := byGuard[g]
		if len(bits) < 2 {
			continue
		}
		// several bits set by the same statement (e.g. RefTable|RefColumn) are one decision
		sameStmt := true
		var pos token.Pos
		for _, s := range sites {
			if s.guard == g {
				if pos == token.NoPos {
					pos = s.pos
				} else if pos != s.pos {
					sameStmt = false
				}
			}
		}
		c.Check("R02f", fi.Name+"|distinct bits have distinct guards|"+strings.Join(keys(bits), "+"), pos, sameStmt, "the kinds %v are set by different statements under the identical guard {%s}: one of the comparisons was probably copied without changing the attribute", keys(bits), g)
	}
}

// symmetryLint: see R02c.
func symmetryLint(c *Ctx) {
	for _, pp := range []string{pSqlx, pSqlite, pMysql, pPostgres} {
		c.AllFuncs(false, func(fi *FuncInfo) {
			if fi.Pkg.PkgPath != pp {
				return
			}
			base := c.Fset.Position(fi.Decl.Pos()).Filename
			base = base[strings.LastIndex(base, "/")+1:]
			if !strings.HasPrefix(base, "diff") {
				return
			}
			checkSymmetryIn(c, fi, fi.Decl.Type, fi.Decl.Body, fi.Name)
			n := 0
			ast.Inspect(fi.Decl.Body, func(m ast.Node) bool {
				if fl, ok := m.(*ast.FuncLit); ok {
					n++
					checkSymmetryIn(c, fi, fl.Type, fl.Body, fi.Name+"$lit"+itoa(n))
				}
				return true
			})
		})
	}
}

func checkSymmetryIn(c *Ctx, fi *FuncInfo, ft *ast.FuncType, body *ast.BlockStmt, name string) {
	info := fi.Info()
	// parameter pairs of identical named schema pointer type
	var params []types.Object
	for _, fld := range ft.Params.List {
		for _, nm := range fld.Names {
			params = append(params, info.ObjectOf(nm))
		}
	}
	type pair struct{ a, b types.Object }
	var pairs []pair
	for i := 0; i < len(params); i++ {
		for j := i + 1; j < len(params); j++ {
			ti, tj := params[i].Type(), params[j].Type()
			if !types.Identical(ti, tj) {
				continue
			}
			n := namedOf(ti)
			if n == nil || n.Obj().Pkg() == nil || n.Obj().Pkg().Path() != pSchema {
				continue
			}
			pairs = append(pairs, pair{params[i], params[j]})
		}
	}
	if len(pairs) == 0 {
		return
	}
	// derived pairs: `x1, x2 := f(a.P), f(b.P)` or `x1, x2 := a.P, b.P`
	derive := map[types.Object]struct {
		root types.Object
		path string
	}{}
	for _, p := range params {
		derive[p] = struct {
			root types.Object
			path string
		}{p, ""}
	}
	ast.Inspect(body, func(m ast.Node) bool {
		as, ok := m.(*ast.AssignStmt)
		if !ok || as.Tok != token.DEFINE || len(as.Lhs) != len(as.Rhs) {
			return true
		}
		for i, l := range as.Lhs {
			id, ok := l.(*ast.Ident)
			if !ok {
				continue
			}
			p := selPath(as.Rhs[i])
			r := rootIdent(as.Rhs[i])
			if p == "" || r == nil {
				continue
			}
			if d, ok := derive[info.ObjectOf(r)]; ok {
				rest := strings.TrimPrefix(p, r.Name)
				derive[info.ObjectOf(id)] = struct {
					root types.Object
					path string
				}{d.root, d.path + rest}
			}
		}
		return true
	})
	resolve := func(e ast.Expr) (types.Object, string, bool) {
		p := selPath(e)
		r := rootIdent(e)
		if p == "" || r == nil {
			return nil, "", false
		}
		d, ok := derive[info.ObjectOf(r)]
		if !ok {
			return nil, "", false
		}
		return d.root, d.path + strings.TrimPrefix(p, r.Name), true
	}
	ast.Inspect(body, func(m ast.Node) bool {
		if _, isLit := m.(*ast.FuncLit); isLit && m != ast.Node(body) {
			return false
		}
		be, ok := m.(*ast.BinaryExpr)
		if !ok {
			return true
		}
		switch be.Op {
		case token.EQL, token.NEQ, token.LSS, token.GTR, token.LEQ, token.GEQ:
		default:
			return true
		}
		ra, pa, ok1 := resolve(be.X)
		rb, pb, ok2 := resolve(be.Y)
		if !ok1 || !ok2 || ra == rb {
			return true
		}
		isPair := false
		for _, p := range pairs {
			if (p.a == ra && p.b == rb) || (p.a == rb && p.b == ra) {
				isPair = true
			}
		}
		if !isPair {
			return true
		}
		c.Check("R02c", name+"|"+types.ExprString(be.X)+" ⋈ "+types.ExprString(be.Y), be.Pos(), pa == pb, "asymmetric comparison %s: the two sides select different attributes (%q vs %q) of the two compared objects", types.ExprString(be), pa, pb)
		return true
	})
}

func checkConditionalChanges(c *Ctx) {
	changeIface := c.NamedType(pSchema, "Change").Underlying().(*types.Interface)
	for _, pp := range []string{pSqlx, pSqlite, pMysql, pPostgres} {
		c.AllFuncs(false, func(fi *FuncInfo) {
			if fi.Pkg.PkgPath != pp {
				return
			}
			base := c.Fset.Position(fi.Decl.Pos()).Filename
			base = base[strings.LastIndex(base, "/")+1:]
			if !strings.HasPrefix(base, "diff") {
				return
			}
			info := fi.Info()
			// comparison functions only: two parameters of the same named schema type
			var ps []types.Object
			for _, fld := range fi.Decl.Type.Params.List {
				for _, nm := range fld.Names {
					ps = append(ps, info.ObjectOf(nm))
				}
			}
			isCmp := false
			for i := 0; i < len(ps); i++ {
				for j := i + 1; j < len(ps); j++ {
					if n := namedOf(ps[i].Type()); n != nil && n.Obj().Pkg() != nil && n.Obj().Pkg().Path() == pSchema && types.Identical(ps[i].Type(), ps[j].Type()) {
						isCmp = true
					}
				}
			}
			if !isCmp {
				return
			}
			pm := parentMap(fi.Decl.Body)
			f := newFlow(info, fi.Decl.Body)
			n := 0
			ast.Inspect(fi.Decl.Body, func(m ast.Node) bool {
				if _, isLit := m.(*ast.FuncLit); isLit {
					return false // callbacks are invoked per matched element by their caller
				}
				un, ok := m.(*ast.UnaryExpr)
				if !ok || un.Op != token.AND {
					return true
				}
				cl, ok := un.X.(*ast.CompositeLit)
				if !ok || !types.Implements(info.TypeOf(un), changeIface) {
					return true
				}
				kind := namedOf(info.TypeOf(cl)).Obj().Name()
				if call, ok := pm[un].(*ast.CallExpr); ok {
					if fn := calleeOf(info, call); fn != nil && (fn.Name() == "Skipped" || fn.Name() == "SupportChange") {
						return true
					}
				}
				n++
				// the CFG node holding the literal
				var at []point
				for _, b := range f.G.Blocks {
					for i, nd := range b.Nodes {
						if nd.Pos() <= un.Pos() && un.End() <= nd.End() {
							at = append(at, point{b, i})
						}
					}
				}
				if len(at) == 0 {
					return true
				}
				isNode := func(x ast.Node) bool { return x == at[0].b.Nodes[at[0].i] }
				// regions: every enclosing loop body (innermost outwards), then the function
				cond := false
				for p := pm[un]; p != nil && !cond; p = pm[p] {
					if !isLoop(p) {
						continue
					}
					loop := p.(ast.Stmt)
					var starts []point
					for _, b := range f.G.Blocks {
						if (b.Kind == cfg.KindRangeBody || b.Kind == cfg.KindForBody) && b.Stmt == loop {
							starts = append(starts, point{b, 0})
						}
					}
					cond = f.reachBlock(starts, isNode, func(b *cfg.Block) bool {
						return b.Stmt == loop && (b.Kind == cfg.KindRangeLoop || b.Kind == cfg.KindRangeDone || b.Kind == cfg.KindForLoop || b.Kind == cfg.KindForPost || b.Kind == cfg.KindForDone)
					})
				}
				if !cond {
					// region = the function, loops with zero iterations do not count as a condition:
					// only accept if a return is reachable from entry avoiding the node through an if/case
					hasLoop := false
					for p := pm[un]; p != nil; p = pm[p] {
						if isLoop(p) {
							hasLoop = true
						}
					}
					if !hasLoop {
						_, cond = f.reach([]point{f.entry()}, isNode, isReturn, true)
					}
				}
				key := fi.Name + "|" + kind
				if n > 1 {
					key += "#" + itoa(n)
				}
				c.Check("R02h", key, un.Pos(), cond, "%s constructs a %s on every path (of its loop iteration): comparing a schema with itself would report it", fi.Name, kind)
				return true
			})
		})
	}
}

// checkNameIdentity is R02i.
func checkNameIdentity(c *Ctx) {
	root := c.Func("R02i", pSqlx, "", "ChecksDiff")
	if root == nil {
		return
	}
	// ChecksDiff and the package-local functions it calls (the matcher may be a named helper)
	scope := []*FuncInfo{root}
	for _, call := range callsIn(root.Decl.Body, true) {
		if fn := calleeOf(root.Info(), call); fn != nil && fn.Pkg() != nil && fn.Pkg().Path() == pSqlx {
			if cf := c.FuncInfoOf(fn); cf != nil && cf.Decl.Body != nil && cf != root {
				scope = append(scope, cf)
			}
		}
	}
	n := 0
	for _, fi := range scope {
		info := fi.Info()
		isCmpCall := func(k ast.Node) types.Object {
			call, ok := k.(*ast.CallExpr)
			if !ok || len(call.Args) != 2 {
				return nil
			}
			id, ok := call.Fun.(*ast.Ident)
			if !ok {
				return nil
			}
			obj := info.ObjectOf(id)
			if _, isVar := obj.(*types.Var); !isVar {
				return nil
			}
			sig, ok := obj.Type().Underlying().(*types.Signature)
			if !ok || sig.Params().Len() != 2 || !typeIs(derefType(sig.Params().At(0).Type()), pSchema, "Check") {
				return nil
			}
			return obj
		}
		isNameTest := func(e ast.Expr, op token.Token) bool {
			be, ok := ast.Unparen(e).(*ast.BinaryExpr)
			if !ok || be.Op != op {
				return false
			}
			x, y := be.X, be.Y
			if s, ok := stringConst(info, x); ok && s == "" {
				x, y = y, x
			}
			s, ok := stringConst(info, y)
			return ok && s == "" && isField(info, x, pSchema, "Check", "Name")
		}
		var flat func(e ast.Expr, op token.Token) []ast.Expr
		flat = func(e ast.Expr, op token.Token) []ast.Expr {
			e = ast.Unparen(e)
			if be, ok := e.(*ast.BinaryExpr); ok && be.Op == op {
				return append(flat(be.X, op), flat(be.Y, op)...)
			}
			return []ast.Expr{e}
		}
		ast.Inspect(fi.Decl.Body, func(m ast.Node) bool {
			fl, ok := m.(*ast.FuncLit)
			if !ok {
				return true
			}
			// a matcher: an innermost literal that calls the comparison function and compares two constraint names
			var cmp types.Object
			nested, namesCompared := false, false
			ast.Inspect(fl.Body, func(k ast.Node) bool {
				if inner, ok := k.(*ast.FuncLit); ok && inner != fl {
					nested = true
				}
				if o := isCmpCall(k); o != nil {
					cmp = o
				}
				if be, ok := k.(*ast.BinaryExpr); ok && be.Op == token.EQL && isField(info, be.X, pSchema, "Check", "Name") && isField(info, be.Y, pSchema, "Check", "Name") {
					namesCompared = true
				}
				return true
			})
			if cmp == nil || nested || !namesCompared {
				return true
			}
			n++
			c.funcs[fi.Name] = true
			f := newFlow(info, fl.Body)
			target := func(k ast.Node) bool {
				found := false
				walkShallow(k, func(x ast.Node) bool {
					if o := isCmpCall(x); o != nil && o == cmp {
						found = true
					}
					return true
				})
				return found
			}
			// an edge is closed when taking it proves that one of the names is empty
			edgeStop := func(b *cfg.Block, si int) bool {
				cond, _, _ := condOf(b)
				if cond == nil || len(b.Succs) != 2 {
					return false
				}
				if si == 1 { // false edge of a conjunction of `name != ""`
					for _, cj := range flat(cond, token.LAND) {
						if !isNameTest(cj, token.NEQ) {
							return false
						}
					}
					return true
				}
				// true edge of a disjunction of `name == ""`
				for _, dj := range flat(cond, token.LOR) {
					if !isNameTest(dj, token.EQL) {
						return false
					}
				}
				return true
			}
			at, reached := f.reachEx([]point{f.entry()}, nil, target, edgeStop)
			pos := fl.Pos()
			if at != nil {
				pos = at.Pos()
			}
			c.Check("R02i", fi.Name+"$matcher"+itoa(n)+"|expression fallback only when a name is empty", pos, !reached, "the constraint matcher in %s reaches the expression comparison on a path where both constraint names may be non-empty: two differently named constraints with the same expression are treated as one (a rename, or a second constraint with an equal expression, produces no change)", fi.Name)
			return true
		})
	}
	if n == 0 {
		c.Unresolved("R02i", "the constraint matcher used by sqlx.ChecksDiff (a func literal that compares two constraint names and calls the comparison function)")
	}
}

// sidePurityLint is R02j.
func sidePurityLint(c *Ctx) {
	for _, pp := range []string{pSqlx, pSqlite, pMysql, pPostgres} {
		c.AllFuncs(false, func(fi *FuncInfo) {
			if fi.Pkg.PkgPath != pp {
				return
			}
			base := c.Fset.Position(fi.Decl.Pos()).Filename
			base = base[strings.LastIndex(base, "/")+1:]
			if !strings.HasPrefix(base, "diff") {
				return
			}
			info := fi.Info()
			type pr struct{ a, b types.Object }
			pairs := map[pr]ast.Expr{}
			split := func(e ast.Expr) (types.Object, string) {
				e = ast.Unparen(e)
				r := rootIdent(e)
				if r == nil {
					return nil, ""
				}
				o := info.ObjectOf(r)
				if _, ok := o.(*types.Var); !ok {
					return nil, ""
				}
				sp := selPath(e)
				if i := strings.Index(sp, "."); i >= 0 {
					return o, sp[i:]
				}
				return nil, ""
			}
			ast.Inspect(fi.Decl.Body, func(m ast.Node) bool {
				be, ok := m.(*ast.BinaryExpr)
				if !ok || (be.Op != token.EQL && be.Op != token.NEQ) {
					return true
				}
				a, pa := split(be.X)
				b, pb := split(be.Y)
				if a == nil || b == nil || a == b || pa != pb || !types.Identical(a.Type(), b.Type()) {
					return true
				}
				pairs[pr{a, b}] = be
				pairs[pr{b, a}] = be
				return true
			})
			if len(pairs) == 0 {
				return
			}
			c.funcs[fi.Name] = true
			done := map[ast.Expr]bool{}
			pm := parentMap(fi.Decl.Body)
			// "match, then adopt": an assignment inside the if whose condition holds the
			// comparison is the result of the comparison, not an input of it.
			guardedBy := func(as ast.Node, cmpE ast.Expr) bool {
				for p := pm[as]; p != nil; p = pm[p] {
					if is, ok := p.(*ast.IfStmt); ok && is.Cond.Pos() <= cmpE.Pos() && cmpE.End() <= is.Cond.End() {
						return true
					}
				}
				return false
			}
			ast.Inspect(fi.Decl.Body, func(m ast.Node) bool {
				as, ok := m.(*ast.AssignStmt)
				if !ok {
					return true
				}
				for i, l := range as.Lhs {
					if _, isSel := ast.Unparen(l).(*ast.SelectorExpr); !isSel {
						continue
					}
					r := rootIdent(l)
					if r == nil {
						continue
					}
					lo := info.ObjectOf(r)
					rhs := as.Rhs[0]
					if len(as.Rhs) == len(as.Lhs) {
						rhs = as.Rhs[i]
					}
					ast.Inspect(rhs, func(k ast.Node) bool {
						id, ok := k.(*ast.Ident)
						if !ok {
							return true
						}
						if cmpE, ok := pairs[pr{lo, info.ObjectOf(id)}]; ok && !guardedBy(as, cmpE) {
							done[cmpE] = true
							c.Check("R02j", fi.Name+"|"+types.ExprString(cmpE)+"|"+types.ExprString(l)+" assigned from "+id.Name, as.Pos(), false, "%s: %s is computed from %s, and the two are then compared (%s): the comparison no longer sees the second object's own value", fi.Name, types.ExprString(l), id.Name, types.ExprString(cmpE))
						}
						return true
					})
				}
				return true
			})
			seen := map[ast.Expr]bool{}
			for _, e := range pairs {
				if !seen[e] && !done[e] {
					seen[e] = true
					c.Check("R02j", fi.Name+"|"+types.ExprString(e)+"|sides independent", e.Pos(), true, "")
				}
			}
		})
	}
}
