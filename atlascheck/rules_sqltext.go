package main

import (
	"go/ast"
	"go/token"
	"go/types"
	"regexp/syntax"
	"strings"
	"unicode"
)

// R03e / R01j: the SQLite inspector recovers parts of the schema (partial-index
// predicates, key parts, AUTOINCREMENT, constraint names, CHECK and generated
// expressions) by searching the CREATE statement stored in sqlite_master. That
// text is what the user typed: SQL keywords may be in any letter case, and an
// identifier may contain a keyword. Two structural conditions:
//
//	(a) every search over the stored text is case-insensitive: a regexp whose
//	    letters are all matched with the fold-case flag, or a strings.* call
//	    whose constant argument has no letters;
//	(b) an offset used to slice the stored text comes from a search over that
//	    very text, not over a transformed copy (ToUpper/ToLower can change the
//	    byte length, and a folded copy also matches inside identifiers).
const ruleTextSQLText = "searches over the stored CREATE statement (sqlite_master.sql) in the SQLite inspector are case-insensitive (regexp letters under the fold-case flag; strings.* searches only for non-letter constants), and every offset used to slice that text comes from a search over the same text, not a transformed copy"

func checkSQLTextSearches(c *Ctx, rule string) {
	p := c.Pkg(pSqlite)
	if p == nil {
		c.Unresolved(rule, "package sql/sqlite")
		return
	}
	info := p.TypesInfo
	// package-level regexps: var re = regexp.MustCompile("…")
	pkgRe := map[types.Object]string{}
	for _, file := range p.Syntax {
		for _, d := range file.Decls {
			gd, ok := d.(*ast.GenDecl)
			if !ok || gd.Tok != token.VAR {
				continue
			}
			for _, sp := range gd.Specs {
				vs := sp.(*ast.ValueSpec)
				for i, nm := range vs.Names {
					if i < len(vs.Values) {
						if pat, ok := regexpPattern(info, vs.Values[i]); ok {
							pkgRe[info.ObjectOf(nm)] = pat
						}
					}
				}
			}
		}
	}
	n := 0
	c.AllFuncs(false, func(fi *FuncInfo) {
		if fi.Pkg.PkgPath != pSqlite || !strings.HasSuffix(c.Fset.Position(fi.Decl.Pos()).Filename, "/inspect.go") {
			return
		}
		// expressions that denote the stored text in this function
		textExprs := map[string]bool{}
		ast.Inspect(fi.Decl.Body, func(m ast.Node) bool {
			if cl, ok := m.(*ast.CompositeLit); ok && typeIs(info.TypeOf(cl), pSqlite, "CreateStmt") {
				for _, el := range cl.Elts {
					if kv, ok := el.(*ast.KeyValueExpr); ok {
						textExprs[types.ExprString(kv.Value)] = true
					}
				}
			}
			return true
		})
		var isText func(e ast.Expr) bool
		isText = func(e ast.Expr) bool {
			e = ast.Unparen(e)
			if sl, ok := e.(*ast.SliceExpr); ok {
				return isText(sl.X)
			}
			return isField(info, e, pSqlite, "CreateStmt", "S") || textExprs[types.ExprString(e)]
		}
		containsText := func(e ast.Expr) bool {
			hit := false
			ast.Inspect(e, func(k ast.Node) bool {
				if x, ok := k.(ast.Expr); ok && isText(x) {
					hit = true
				}
				return !hit
			})
			return hit
		}
		localRe := map[types.Object]string{}
		ast.Inspect(fi.Decl.Body, func(m ast.Node) bool {
			as, ok := m.(*ast.AssignStmt)
			if !ok || len(as.Rhs) != 1 || len(as.Lhs) < 1 {
				return true
			}
			if pat, ok := regexpPattern(info, as.Rhs[0]); ok {
				if id, ok := as.Lhs[0].(*ast.Ident); ok {
					localRe[info.ObjectOf(id)] = pat
				}
			}
			return true
		})
		// (a) searches
		searchVar := map[types.Object]ast.Expr{} // offset variable -> subject expression of the search that produced it
		for _, call := range callsIn(fi.Decl.Body, true) {
			fn := calleeOf(info, call)
			if fn == nil || fn.Pkg() == nil {
				continue
			}
			switch {
			case fn.Pkg().Path() == "regexp" && recvTypeName(fn) == "Regexp":
				if len(call.Args) == 0 || !containsText(call.Args[0]) {
					continue
				}
				n++
				c.funcs[fi.Name] = true
				se := call.Fun.(*ast.SelectorExpr)
				pat, ok := "", false
				if id, isID := ast.Unparen(se.X).(*ast.Ident); isID {
					obj := info.ObjectOf(id)
					if pat, ok = pkgRe[obj]; !ok {
						pat, ok = localRe[obj]
					}
				}
				key := fi.Name + "|" + types.ExprString(se.X) + "." + fn.Name() + "(" + types.ExprString(call.Args[0]) + ")"
				if !ok {
					c.Unresolved(rule, key+": the pattern of the regular expression")
					continue
				}
				bad := unfoldedLetters(pat)
				c.Check(rule, key+" is case-insensitive", call.Pos(), bad == "", "the pattern %q matches the letters %q case-sensitively in the stored CREATE statement: the same SQL typed in another letter case is not recognised and that part of the schema is lost or the inspection fails", pat, bad)
			case fn.Pkg().Path() == "strings":
				switch fn.Name() {
				case "Index", "LastIndex", "Contains", "HasPrefix", "HasSuffix", "Cut", "Split", "SplitN", "SplitAfter", "Count", "TrimPrefix", "TrimSuffix", "Fields":
				default:
					continue
				}
				if len(call.Args) < 2 || !containsText(call.Args[0]) {
					continue
				}
				n++
				c.funcs[fi.Name] = true
				key := fi.Name + "|strings." + fn.Name() + "(" + types.ExprString(call.Args[0]) + ", " + types.ExprString(call.Args[1]) + ")"
				k, isConst := stringConst(info, call.Args[1])
				hasLetter := strings.IndexFunc(k, unicode.IsLetter) >= 0
				direct := isText(call.Args[0])
				switch {
				case !isConst:
					c.Check(rule, key+" is case-insensitive", call.Pos(), true, "")
				case hasLetter && direct:
					c.Check(rule, key+" is case-insensitive", call.Pos(), false, "strings.%s looks for %q case-sensitively in the stored CREATE statement: the keyword typed in another letter case is not found (and an identifier that contains it is)", fn.Name(), k)
				default:
					c.Check(rule, key+" is case-insensitive", call.Pos(), true, "")
				}
			default:
				continue
			}
		}
		// (b) offsets: v := <search>(subject, …); text[v…]
		ast.Inspect(fi.Decl.Body, func(m ast.Node) bool {
			as, ok := m.(*ast.AssignStmt)
			if !ok || len(as.Rhs) != 1 {
				return true
			}
			call, ok := as.Rhs[0].(*ast.CallExpr)
			if !ok || len(call.Args) == 0 || !containsText(call.Args[0]) {
				return true
			}
			fn := calleeOf(info, call)
			if fn == nil || fn.Pkg() == nil || (fn.Pkg().Path() != "strings" && fn.Pkg().Path() != "regexp") {
				return true
			}
			for _, l := range as.Lhs {
				if id, ok := l.(*ast.Ident); ok && id.Name != "_" {
					searchVar[info.ObjectOf(id)] = call.Args[0]
				}
			}
			return true
		})
		ast.Inspect(fi.Decl.Body, func(m ast.Node) bool {
			sl, ok := m.(*ast.SliceExpr)
			if !ok || !isText(sl.X) {
				return true
			}
			for _, b := range []ast.Expr{sl.Low, sl.High} {
				if b == nil {
					continue
				}
				ast.Inspect(b, func(k ast.Node) bool {
					id, ok := k.(*ast.Ident)
					if !ok {
						return true
					}
					subj, ok := searchVar[info.ObjectOf(id)]
					if !ok {
						return true
					}
					n++
					c.Check(rule, fi.Name+"|"+types.ExprString(sl)+" offset "+id.Name+" from a search over the same text", sl.Pos(), isText(subj), "%s is sliced at an offset found in %s, a transformed copy of the text: the copy can have another byte length (and a folded copy also matches the keyword inside identifiers), so the cut is at the wrong place", types.ExprString(sl.X), types.ExprString(subj))
					return true
				})
			}
			return true
		})
	})
	if n < 6 {
		c.Unresolved(rule, "searches over the stored CREATE statement in sql/sqlite/inspect.go (found fewer than 6)")
	}
}

// regexpPattern returns the constant pattern of regexp.MustCompile/Compile(const) or
// (Must)Compile(fmt.Sprintf(const, …)); verbs of the format are replaced by a
// non-letter placeholder.
func regexpPattern(info *types.Info, e ast.Expr) (string, bool) {
	call, ok := ast.Unparen(e).(*ast.CallExpr)
	if !ok || len(call.Args) != 1 {
		return "", false
	}
	fn := calleeOf(info, call)
	if fn == nil || fn.Pkg() == nil || fn.Pkg().Path() != "regexp" || (fn.Name() != "MustCompile" && fn.Name() != "Compile") {
		return "", false
	}
	if s, ok := stringConst(info, call.Args[0]); ok {
		return s, true
	}
	if inner, ok := ast.Unparen(call.Args[0]).(*ast.CallExpr); ok {
		if f := calleeOf(info, inner); f != nil && f.Pkg() != nil && f.Pkg().Path() == "fmt" && f.Name() == "Sprintf" && len(inner.Args) > 0 {
			if s, ok := stringConst(info, inner.Args[0]); ok {
				for _, v := range []string{"%s", "%q", "%d", "%v"} {
					s = strings.ReplaceAll(s, v, "\\x00")
				}
				return s, true
			}
		}
	}
	return "", false
}

// unfoldedLetters returns the letters the pattern matches case-sensitively.
func unfoldedLetters(pat string) string {
	re, err := syntax.Parse(pat, syntax.Perl)
	if err != nil {
		return "<unparsable: " + err.Error() + ">"
	}
	var bad []rune
	var walk func(r *syntax.Regexp)
	walk = func(r *syntax.Regexp) {
		switch r.Op {
		case syntax.OpLiteral:
			if r.Flags&syntax.FoldCase == 0 {
				for _, x := range r.Rune {
					if unicode.IsLetter(x) {
						bad = append(bad, x)
					}
				}
			}
		case syntax.OpCharClass:
			in := func(x rune) bool {
				for i := 0; i+1 < len(r.Rune); i += 2 {
					if r.Rune[i] <= x && x <= r.Rune[i+1] {
						return true
					}
				}
				return false
			}
			for x := 'a'; x <= 'z'; x++ {
				if in(x) != in(unicode.ToUpper(x)) {
					bad = append(bad, x)
				}
			}
		}
		for _, s := range r.Sub {
			walk(s)
		}
	}
	walk(re)
	return string(bad)
}
