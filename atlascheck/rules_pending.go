package main

import (
	"go/ast"
	"go/token"
	"go/types"
	"golang.org/x/tools/go/cfg"
	"strings"
)

func init() {
	register("C11", &propCheck{
		explanation: "The core of this property (which files are pending for a given history) is a value-level decision over version strings and counts and is NOT decided. Decided structural parts: (a) single source of truth: the files `migrate apply` executes, the files ExecuteN/ExecuteTo hand to exec and the Pending list `migrate status` prints are the value returned by Executor.Pending (or a prefix of it), so status and apply-with-count agree with that decision by construction; (b) Pending validates the directory first and on a first run consults CheckClean, returning its NotCleanError unless allow-dirty or a baseline is configured; (c) every slices.BinarySearchFunc comparator compares element-derived first, target-derived second; (d) the completeness of the last revision is decided from Applied and Total alone; (e) checkpoint helpers take the last checkpoint and drop exactly the checkpoint files.",
		undecided:   []string{"the pending decision itself for every history (boundaries such as <= vs <, idx++, the first-index window): value-level, needs an executable reference model", "set-version semantics (migrateSetRun recomputes on purpose)", "exec-order handling of out-of-order files beyond the comparator orientation"},
		run:         runC11,
	})
}

func runC11(c *Ctx) {
	c.Rule("R11a", "single source of truth: in migrateApplyRun, Executor.ExecuteN and Executor.ExecuteTo the file list that is executed is assigned only from Executor.Pending or a prefix re-slice of itself; MigrateStatus.Pending is stored only from Executor.Pending, FilesFromLastCheckpoint (no revision table yet) or HistoryNonLinearError.Pending", 6)
	c.Rule("R11b", "first-run gate: in Pending's len(revs)==0 branch CheckClean is called and a NotCleanError is returned unless allowDirty or baselineVer is set; Pending validates the directory before reading revisions or files", 3)
	c.Rule("R11c", "comparator orientation: every slices.BinarySearchFunc(s, t, cmp) comparator compares a value derived from its first (element) parameter with one derived from its second (target) parameter, in that order", 2)
	c.Rule("R11d", "Executor.Pending decides completeness from Applied and Total alone (conditions read only Applied/Total/Version of a Revision; Applied is compared only with Total of the same revision)", 4)
	c.Rule("R11e", "checkpoint helpers: FilesFromLastCheckpoint starts from the last element of CheckpointFiles(); SkipCheckpointFiles keeps every file unconditionally except under IsCheckpoint(); filesFromCheckpoint returns files[i:] from the matching checkpoint", 3)

	// ---- R11a
	for _, spec := range []struct {
		pkg, recv, name string
		sink            callPred
		sinkName        string
	}{
		{pCmdapi, "", "migrateApplyRun", nil, "range loop executing files"},
		{pMigrate, "Executor", "ExecuteN", isCallTo(pMigrate, "Executor", "exec"), "exec"},
		{pMigrate, "Executor", "ExecuteTo", isCallTo(pMigrate, "Executor", "exec"), "exec"},
	} {
		fi := c.Func("R11a", spec.pkg, spec.recv, spec.name)
		if fi == nil {
			continue
		}
		info := fi.Info()
		// the variable consumed
		var consumed types.Object
		if spec.sink != nil {
			for _, call := range callsIn(fi.Decl.Body, false) {
				if fn := calleeOf(info, call); fn != nil && spec.sink(fn, call) && len(call.Args) >= 2 {
					if id, ok := call.Args[1].(*ast.Ident); ok {
						consumed = info.ObjectOf(id)
					}
				}
			}
		} else {
			// the range loop whose body calls Execute
			ast.Inspect(fi.Decl.Body, func(m ast.Node) bool {
				rs, ok := m.(*ast.RangeStmt)
				if !ok {
					return true
				}
				if nodeHasCall(info, rs.Body, isCallTo(pMigrate, "Executor", "Execute")) != nil {
					if id, ok := rs.X.(*ast.Ident); ok {
						consumed = info.ObjectOf(id)
					}
				}
				return true
			})
		}
		if consumed == nil {
			c.Unresolved("R11a", fi.Name+": variable handed to "+spec.sinkName)
			continue
		}
		bad := ""
		nDefs := 0
		ast.Inspect(fi.Decl.Body, func(m ast.Node) bool {
			as, ok := m.(*ast.AssignStmt)
			if !ok {
				return true
			}
			for i, l := range as.Lhs {
				id, ok := l.(*ast.Ident)
				if !ok || info.ObjectOf(id) != consumed {
					continue
				}
				nDefs++
				var rhs ast.Expr
				if len(as.Rhs) == 1 {
					rhs = as.Rhs[0]
				} else if i < len(as.Rhs) {
					rhs = as.Rhs[i]
				}
				okDef := false
				switch r := rhs.(type) {
				case *ast.CallExpr:
					if funcIs(calleeOf(info, r), pMigrate, "Executor", "Pending") && i == 0 {
						okDef = true
					}
					// a module-local wrapper whose every return is Executor.Pending(…)
					if wf := calleeOf(info, r); wf != nil && i == 0 && isPendingWrapper(c, wf, 2) {
						okDef = true
					}
					// an immediately invoked literal whose every return is Executor.Pending(…)
					if fl, isLit := ast.Unparen(r.Fun).(*ast.FuncLit); isLit && i == 0 {
						rets, good := 0, 0
						ast.Inspect(fl.Body, func(k ast.Node) bool {
							if inner, ok := k.(*ast.FuncLit); ok && inner != fl {
								return false
							}
							if rs, ok := k.(*ast.ReturnStmt); ok {
								rets++
								if len(rs.Results) == 1 {
									if cl, ok := ast.Unparen(rs.Results[0]).(*ast.CallExpr); ok && funcIs(calleeOf(info, cl), pMigrate, "Executor", "Pending") {
										good++
									}
								}
							}
							return true
						})
						okDef = rets > 0 && rets == good
					}
				case *ast.SliceExpr:
					if x, ok := r.X.(*ast.Ident); ok && info.ObjectOf(x) == consumed && r.Low == nil {
						okDef = true
					}
				}
				if !okDef {
					bad = types.ExprString(rhs) + " at " + c.pos(as.Pos())
				}
			}
			return true
		})
		c.Check("R11a", fi.Name+"|executed files come from Executor.Pending", fi.Decl.Pos(), bad == "" && nDefs > 0, "the file list handed to %s in %s is assigned from %s: it must be the value returned by Executor.Pending or a prefix of it", spec.sinkName, fi.Name, bad)
	}
	// MigrateStatus.Pending stores
	c.AllFuncs(false, func(fi *FuncInfo) {
		info := fi.Info()
		ast.Inspect(fi.Decl.Body, func(m ast.Node) bool {
			as, ok := m.(*ast.AssignStmt)
			if !ok {
				return true
			}
			for i, l := range as.Lhs {
				if !isField(info, l, pCmdlog, "MigrateStatus", "Pending") {
					continue
				}
				var rhs ast.Expr
				if len(as.Rhs) == 1 {
					rhs = as.Rhs[0]
				} else if i < len(as.Rhs) {
					rhs = as.Rhs[i]
				}
				okDef, what := false, types.ExprString(rhs)
				switch r := rhs.(type) {
				case *ast.CallExpr:
					fn := calleeOf(info, r)
					if funcIs(fn, pMigrate, "Executor", "Pending") || funcIs(fn, pMigrate, "", "FilesFromLastCheckpoint") {
						okDef = true
					}
				case *ast.SelectorExpr:
					if isField(info, r, pMigrate, "HistoryNonLinearError", "Pending") {
						okDef = true
					}
					// rep.Pending = rep.Available where Available was just assigned from FilesFromLastCheckpoint
					if isField(info, r, pCmdlog, "MigrateStatus", "Available") {
						pm := parentMap(fi.Decl.Body)
						if blk, ok := pm[as].(*ast.BlockStmt); ok {
							for _, st := range blk.List {
								if st == ast.Stmt(as) {
									break
								}
								if nodeHasCall(info, st, isCallTo(pMigrate, "", "FilesFromLastCheckpoint")) != nil {
									okDef = true
								}
							}
						}
					}
				}
				c.Check("R11a", fi.Name+"|MigrateStatus.Pending = "+what, as.Pos(), okDef, "the pending list reported by `migrate status` is assigned from %s, not from Executor.Pending (or the first-run / non-linear values it produces): status and apply may disagree", what)
			}
			return true
		})
	})

	// ---- R11b
	if pf := c.Func("R11b", pMigrate, "Executor", "Pending"); pf != nil {
		info := pf.Info()
		f := newFlow(info, pf.Decl.Body)
		consume := func(fn *types.Func, _ *ast.CallExpr) bool {
			return fn.Name() == "ReadRevisions" || fn.Name() == "Files" || fn.Name() == "CheckClean" || fn.Name() == "writeRevision"
		}
		isVal := func(n ast.Node) bool {
			call := nodeHasCall(info, n, isValidateCall)
			return call != nil && resultUsed(info, pf.Decl.Body, call)
		}
		n, found := f.reach([]point{f.entry()}, isVal, func(n ast.Node) bool { return nodeHasCall(info, n, consume) != nil }, false)
		c.Check("R11b", "Pending|validates first", nodePos(n, pf.Decl.Pos()), !found, "Pending reads revisions/files at %s before validating the directory", c.nodeAt(n))
		// first-run case: the case clause whose condition is len(revs) == 0
		var first *ast.CaseClause
		ast.Inspect(pf.Decl.Body, func(m ast.Node) bool {
			cc, ok := m.(*ast.CaseClause)
			if !ok || first != nil {
				return true
			}
			for _, e := range cc.List {
				if be, ok := e.(*ast.BinaryExpr); ok && be.Op == token.EQL && lenArg(info, be.X) != nil {
					if tv := info.Types[be.Y]; tv.Value != nil && tv.Value.String() == "0" {
						first = cc
					}
				}
			}
			return true
		})
		if first == nil {
			c.Unresolved("R11b", "Pending: `case len(revs) == 0:` (first run)")
		} else {
			hasClean := false
			gate := false
			for _, st := range first.Body {
				if nodeHasCall(info, st, func(fn *types.Func, _ *ast.CallExpr) bool { return fn.Name() == "CheckClean" }) != nil {
					hasClean = true
				}
				ifs, ok := st.(*ast.IfStmt)
				if !ok {
					continue
				}
				// condition mentions allowDirty and baselineVer and the body returns an error
				s := types.ExprString(ifs.Cond)
				if strings.Contains(s, "allowDirty") && strings.Contains(s, "baselineVer") {
					facts := impliedFacts(ifs.Cond, true)
					notDirty, noBase, notClean := false, false, false
					for _, fct := range facts {
						es := types.ExprString(fct.expr)
						switch {
						case strings.HasSuffix(es, ".allowDirty") && !fct.val:
							notDirty = true
						case strings.Contains(es, "baselineVer") && strings.Contains(es, `""`):
							if be, ok := fct.expr.(*ast.BinaryExpr); ok && ((be.Op == token.EQL && fct.val) || (be.Op == token.NEQ && !fct.val)) {
								noBase = true
							}
						case strings.Contains(es, "!= nil") && fct.val:
							notClean = true
						}
					}
					returnsErr := false
					for _, bs := range ifs.Body.List {
						if r, ok := bs.(*ast.ReturnStmt); ok && len(r.Results) == 2 && isNilIdent(info, r.Results[0]) && !isNilIdent(info, r.Results[1]) {
							returnsErr = true
						}
					}
					gate = notDirty && noBase && notClean && returnsErr
				}
			}
			c.Check("R11b", "Pending|first run consults CheckClean", first.Pos(), hasClean, "the first-run branch of Pending no longer calls CheckClean")
			c.Check("R11b", "Pending|not-clean refused unless allow-dirty or baseline", first.Pos(), gate, "the first-run branch must return the NotCleanError exactly when the database is not clean, allowDirty is false and no baseline version is set")
		}
	}

	// ---- R11c
	c.AllFuncs(false, func(fi *FuncInfo) {
		info := fi.Info()
		for _, call := range callsIn(fi.Decl.Body, true) {
			fn := calleeOf(info, call)
			if fn == nil || fn.Pkg() == nil || fn.Pkg().Path() != "slices" || fn.Name() != "BinarySearchFunc" || len(call.Args) != 3 {
				continue
			}
			// the comparator: a function literal or a named module-local function
			var ftype *ast.FuncType
			var fbody *ast.BlockStmt
			cinfo := info
			switch x := ast.Unparen(call.Args[2]).(type) {
			case *ast.FuncLit:
				ftype, fbody = x.Type, x.Body
			case *ast.Ident, *ast.SelectorExpr:
				var id *ast.Ident
				if sel, isSel := x.(*ast.SelectorExpr); isSel {
					id = sel.Sel
				} else {
					id = x.(*ast.Ident)
				}
				if nf, isFn := info.ObjectOf(id).(*types.Func); isFn {
					if cf := c.FuncInfoOf(nf); cf != nil && cf.Decl.Body != nil {
						ftype, fbody, cinfo = cf.Decl.Type, cf.Decl.Body, cf.Info()
					}
				}
			}
			if ftype == nil || ftype.Params.NumFields() != 2 {
				c.Unresolved("R11c", fi.Name+": BinarySearchFunc comparator is neither a 2-parameter function literal nor a module-local function")
				continue
			}
			var ps []types.Object
			for _, fld := range ftype.Params.List {
				for _, nm := range fld.Names {
					ps = append(ps, cinfo.ObjectOf(nm))
				}
			}
			if len(ps) != 2 {
				c.Unresolved("R11c", fi.Name+": BinarySearchFunc comparator parameters")
				continue
			}
			oriented := false
			info := cinfo
			ast.Inspect(fbody, func(m ast.Node) bool {
				cc, ok := m.(*ast.CallExpr)
				if !ok || len(cc.Args) != 2 {
					return true
				}
				if cf := calleeOf(info, cc); cf == nil || cf.Name() != "Compare" {
					return true
				}
				a, b := usesOnly(info, cc.Args[0], ps[0], ps[1]), usesOnly(info, cc.Args[1], ps[1], ps[0])
				if a && b {
					oriented = true
				}
				return true
			})
			c.Check("R11c", fi.Name+"|BinarySearchFunc("+types.ExprString(call.Args[0])+", "+types.ExprString(call.Args[1])+")", call.Pos(), oriented, "the comparator does not compare (element, target) in that order: the binary search result is meaningless for a sorted slice")
		}
	})

	// ---- R11d
	checkPendingReads(c, "R11d")

	// ---- R11f / R11g
	c.Rule("R11f", "index provenance: an index obtained by searching slice B (FilesLastIndex, slices.IndexFunc/Index/BinarySearchFunc; a prefix B[:k] counts as B) is used to index or slice B only, never a different slice", 6)
	checkIndexProvenance(c, "R11f")
	c.Rule("R11g", "checkpoint files never become pending through the raw listing: every []File returned by Executor.Pending (and every value assigned to its pending variable) is built from SkipCheckpointFiles(…) / FilesFromLastCheckpoint(…) results, slices of them, or the single partially applied checkpoint element", 4)
	checkPendingSources(c, "R11g")

	// ---- R11i / R11j
	c.Rule("R11i", ruleTextPendingLowerBound, 3)
	checkPendingLowerBound(c, "R11i")
	c.Rule("R11n", ruleTextCommentOpeners, 2)
	checkCommentOpeners(c, "R11n")
	c.Rule("R11l", ruleTextCheckpointLookup, 3)
	checkCheckpointLookup(c, "R11l")
	c.Rule("R11m", ruleTextExecOrderVocab, 3)
	checkExecOrderVocab(c, "R11m")
	c.Rule("R11o", ruleTextDirectiveAnyPrefix, 1)
	checkDirectiveAnyPrefix(c, "R11o")
	c.Rule("R11k", ruleTextNoStaleRevisions, 1)
	checkNoStaleRevisions(c, "R11k")
	c.Rule("R11j", ruleTextDirRestored, 1)
	checkDirRestored(c, "R11j")

	// ---- R11h
	c.Rule("R11h", ruleTextPartialAnywhere, 1)
	checkPartialAnywhere(c, "R11h")

	// ---- R11e
	checkLastCheckpoint(c, "R11e")
	if fi := c.Func("R11e", pMigrate, "", "SkipCheckpointFiles"); fi != nil {
		info := fi.Info()
		ok := false
		ast.Inspect(fi.Decl.Body, func(m ast.Node) bool {
			loop, isLoop := m.(*ast.RangeStmt)
			if !isLoop {
				return true
			}
			ok = keepsIffNotCheckpoint(c, fi, loop)
			return true
		})
		// equivalent idiom: slices.DeleteFunc(<fresh copy>, <predicate reaching IsCheckpoint>)
		for _, call := range callsIn(fi.Decl.Body, true) {
			fn := calleeOf(info, call)
			if fn == nil || fn.Pkg() == nil || fn.Pkg().Path() != "slices" || fn.Name() != "DeleteFunc" || len(call.Args) != 2 {
				continue
			}
			isCk := func(g *types.Func) bool { return g.Name() == "IsCheckpoint" }
			predOK := false
			switch p := ast.Unparen(call.Args[1]).(type) {
			case *ast.Ident:
				if pf, isFn := info.ObjectOf(p).(*types.Func); isFn {
					predOK = c.mayReach(pf, isCk, 2)
				}
			case *ast.FuncLit:
				predOK = nodeHasCall(info, p.Body, c.viaHelpers(func(g *types.Func, _ *ast.CallExpr) bool { return isCk(g) }, 2)) != nil
			}
			// the filtered slice must not be the parameter itself
			fresh := false
			if id, isID := ast.Unparen(call.Args[0]).(*ast.Ident); isID {
				obj := info.ObjectOf(id)
				isParam := false
				for _, fld := range fi.Decl.Type.Params.List {
					for _, nm := range fld.Names {
						if info.ObjectOf(nm) == obj {
							isParam = true
						}
					}
				}
				fresh = !isParam
			} else if cl, isCall := ast.Unparen(call.Args[0]).(*ast.CallExpr); isCall {
				if g := calleeOf(info, cl); g != nil && g.Pkg() != nil && g.Pkg().Path() == "slices" && g.Name() == "Clone" {
					fresh = true
				}
			}
			if predOK && fresh {
				ok = true
			}
		}
		c.Check("R11e", "SkipCheckpointFiles|drops exactly the checkpoint files", fi.Decl.Pos(), ok, "SkipCheckpointFiles must keep every file unconditionally except those for which IsCheckpoint() holds")
	}
	if fi := c.Func("R11e", pMigrate, "", "filesFromCheckpoint"); fi != nil {
		info := fi.Info()
		ok := false
		ast.Inspect(fi.Decl.Body, func(m ast.Node) bool {
			r, isRet := m.(*ast.ReturnStmt)
			if !isRet || len(r.Results) != 2 {
				return true
			}
			if sl, isSl := r.Results[0].(*ast.SliceExpr); isSl && sl.High == nil && sl.Low != nil {
				if _, isID := sl.Low.(*ast.Ident); isID && isNilIdent(info, r.Results[1]) {
					ok = true
				}
			}
			return true
		})
		c.Check("R11e", "filesFromCheckpoint|returns files[i:]", fi.Decl.Pos(), ok, "filesFromCheckpoint must return the files from the checkpoint's own index on (files[i:])")
	}
}

// usesOnly: e mentions object a and never object b.
func usesOnly(info *types.Info, e ast.Expr, a, b types.Object) bool {
	hasA, hasB := false, false
	ast.Inspect(e, func(m ast.Node) bool {
		if id, ok := m.(*ast.Ident); ok {
			switch info.ObjectOf(id) {
			case a:
				hasA = true
			case b:
				hasB = true
			}
		}
		return true
	})
	return hasA && !hasB
}

func isIndexFinder(fn *types.Func) bool {
	if fn == nil || fn.Pkg() == nil {
		return false
	}
	switch fn.Pkg().Path() + "." + fn.Name() {
	case pMigrate + ".FilesLastIndex", "slices.IndexFunc", "slices.Index", "slices.BinarySearchFunc", "slices.BinarySearch":
		return true
	}
	return false
}

// baseOf strips prefix slicing (B[:k]) and parentheses.
func baseOf(e ast.Expr) ast.Expr {
	for {
		switch x := e.(type) {
		case *ast.ParenExpr:
			e = x.X
		case *ast.SliceExpr:
			if x.Low == nil {
				e = x.X
				continue
			}
			return e
		default:
			return e
		}
	}
}

func checkIndexProvenance(c *Ctx, rule string) {
	c.AllFuncs(false, func(fi *FuncInfo) {
		info := fi.Info()
		// index variables and their base
		type prov struct {
			base string
			root types.Object
		}
		idx := map[types.Object]prov{}
		ast.Inspect(fi.Decl.Body, func(m ast.Node) bool {
			var lhs []ast.Expr
			var rhs ast.Expr
			switch x := m.(type) {
			case *ast.AssignStmt:
				if len(x.Rhs) == 1 {
					lhs, rhs = x.Lhs, x.Rhs[0]
				}
			case *ast.ValueSpec:
				if len(x.Values) == 1 {
					for _, n := range x.Names {
						lhs = append(lhs, n)
					}
					rhs = x.Values[0]
				}
			}
			call, ok := rhs.(*ast.CallExpr)
			if !ok || len(lhs) == 0 || len(call.Args) == 0 || !isIndexFinder(calleeOf(info, call)) {
				return true
			}
			id, ok := lhs[0].(*ast.Ident)
			if !ok || id.Name == "_" {
				return true
			}
			b := baseOf(call.Args[0])
			r := rootIdent(b)
			if r == nil {
				return true
			}
			o := info.ObjectOf(id)
			if old, dup := idx[o]; dup && old.base != types.ExprString(b) {
				idx[o] = prov{"<several>", nil}
				return true
			}
			idx[o] = prov{types.ExprString(b), info.ObjectOf(r)}
			return true
		})
		if len(idx) == 0 {
			return
		}
		usesIdx := func(e ast.Expr) types.Object {
			// i, i+k, i-k
			switch x := e.(type) {
			case *ast.Ident:
				return info.ObjectOf(x)
			case *ast.BinaryExpr:
				if x.Op == token.ADD || x.Op == token.SUB {
					if id, ok := x.X.(*ast.Ident); ok {
						if tv := info.Types[x.Y]; tv.Value != nil {
							return info.ObjectOf(id)
						}
					}
				}
			}
			return nil
		}
		ast.Inspect(fi.Decl.Body, func(m ast.Node) bool {
			var base ast.Expr
			var ixs []ast.Expr
			switch x := m.(type) {
			case *ast.IndexExpr:
				base, ixs = x.X, []ast.Expr{x.Index}
			case *ast.SliceExpr:
				base = x.X
				if x.Low != nil {
					ixs = append(ixs, x.Low)
				}
				if x.High != nil {
					ixs = append(ixs, x.High)
				}
			default:
				return true
			}
			for _, ie := range ixs {
				o := usesIdx(ie)
				if o == nil {
					continue
				}
				p, ok := idx[o]
				if !ok || p.root == nil {
					continue
				}
				b := baseOf(base)
				same := types.ExprString(b) == p.base
				if r := rootIdent(b); r == nil || info.ObjectOf(r) != p.root {
					same = false
				}
				c.Check(rule, fi.Name+"|"+o.Name()+" (index into "+p.base+") used on "+types.ExprString(b), m.Pos(), same, "%s was obtained by searching %s but is used to index/slice %s: the two slices do not share positions", o.Name(), p.base, types.ExprString(b))
			}
			return true
		})
	})
}

func checkPendingSources(c *Ctx, rule string) {
	fi := c.Func(rule, pMigrate, "Executor", "Pending")
	if fi == nil {
		return
	}
	info := fi.Info()
	// variables whose every assignment is clean are clean; iterate to a fixpoint
	type asg struct {
		obj types.Object
		rhs ast.Expr
		pos token.Pos
	}
	var asgs []asg
	ast.Inspect(fi.Decl.Body, func(m ast.Node) bool {
		switch x := m.(type) {
		case *ast.FuncLit:
			return false
		case *ast.AssignStmt:
			for i, l := range x.Lhs {
				id, ok := l.(*ast.Ident)
				if !ok {
					continue
				}
				o := info.ObjectOf(id)
				if o == nil {
					continue
				}
				if sl, ok := o.Type().Underlying().(*types.Slice); !ok || !typeIs(sl.Elem(), pMigrate, "File") {
					continue
				}
				var rhs ast.Expr
				if len(x.Rhs) == 1 {
					rhs = x.Rhs[0]
				} else if i < len(x.Rhs) {
					rhs = x.Rhs[i]
				}
				asgs = append(asgs, asg{o, rhs, x.Pos()})
			}
		case *ast.ValueSpec:
			for i, n := range x.Names {
				o := info.ObjectOf(n)
				if o == nil {
					continue
				}
				if sl, ok := o.Type().Underlying().(*types.Slice); !ok || !typeIs(sl.Elem(), pMigrate, "File") {
					continue
				}
				if i < len(x.Values) {
					asgs = append(asgs, asg{o, x.Values[i], x.Pos()})
				} else if len(x.Values) == 0 {
					asgs = append(asgs, asg{o, nil, x.Pos()})
				}
			}
		}
		return true
	})
	clean := map[types.Object]bool{}
	cleanElem := map[types.Object]bool{}
	var isClean func(e ast.Expr) bool
	isClean = func(e ast.Expr) bool {
		switch x := e.(type) {
		case nil:
			return true
		case *ast.ParenExpr:
			return isClean(x.X)
		case *ast.Ident:
			if isNilIdent(info, x) {
				return true
			}
			return clean[info.ObjectOf(x)]
		case *ast.SliceExpr:
			return isClean(x.X)
		case *ast.CompositeLit:
			return true // explicit single elements (the partially applied checkpoint itself)
		case *ast.CallExpr:
			if b := builtinName(info, x); b == "append" {
				for i, a := range x.Args {
					if i > 0 && !(x.Ellipsis.IsValid() && i == len(x.Args)-1) {
						// a single element: must be the loop variable of a range over a clean slice
						id, ok := a.(*ast.Ident)
						if !ok || !cleanElem[info.ObjectOf(id)] {
							return false
						}
						continue
					}
					if !isClean(a) {
						return false
					}
				}
				return true
			}
			fn := calleeOf(info, x)
			if funcIs(fn, pMigrate, "", "SkipCheckpointFiles") || funcIs(fn, pMigrate, "", "FilesFromLastCheckpoint") {
				return true
			}
		}
		return false
	}
	for changed := true; changed; {
		changed = false
		// loop variables ranging over clean slices
		ast.Inspect(fi.Decl.Body, func(m ast.Node) bool {
			if rs, ok := m.(*ast.RangeStmt); ok && rs.Value != nil {
				if v, ok := rs.Value.(*ast.Ident); ok && isClean(rs.X) && !cleanElem[info.ObjectOf(v)] {
					cleanElem[info.ObjectOf(v)] = true
					changed = true
				}
			}
			return true
		})
		byObj := map[types.Object][]asg{}
		for _, a := range asgs {
			byObj[a.obj] = append(byObj[a.obj], a)
		}
		for o, as := range byObj {
			if clean[o] {
				continue
			}
			all := true
			for _, a := range as {
				// self-referential updates (pending = append(skipped, pending...)) are judged assuming o clean
				clean[o] = true
				if !isClean(a.rhs) {
					all = false
				}
				clean[o] = false
			}
			if all {
				clean[o] = true
				changed = true
			}
		}
	}
	// the raw listing must not be clean (sanity): a variable assigned from Dir.Files()
	n := 0
	walkShallow(fi.Decl.Body, func(m ast.Node) bool {
		r, ok := m.(*ast.ReturnStmt)
		if !ok || len(r.Results) != 2 {
			return true
		}
		n++
		c.Check(rule, "Pending|return "+types.ExprString(r.Results[0]), r.Pos(), isClean(r.Results[0]), "Pending returns %s, which is not built from checkpoint-filtered file lists: a checkpoint file other than the partially applied one can be scheduled on a non-empty database", types.ExprString(r.Results[0]))
		return true
	})
	if n == 0 {
		c.Unresolved(rule, "return statements of Executor.Pending")
	}
}

const ruleTextPartialAnywhere = "a partially applied revision is pending wherever it stands: in Executor.Pending every look-up of a file's revision (slices.BinarySearchFunc over the revisions) that excuses the file from being run also requires the matched revision to be complete (reads Applied and Total of revs[i] in the same condition); with non-linear execution a failed out-of-order file is not the last revision"

// checkPartialAnywhere: see ruleTextPartialAnywhere.
func checkPartialAnywhere(c *Ctx, rule string) {
	root := c.Func(rule, pMigrate, "Executor", "Pending")
	if root == nil {
		return
	}
	// Pending and the module-local functions it calls (the look-up may live in a helper)
	scope := []*FuncInfo{root}
	seen := map[*types.Func]bool{root.Obj: true}
	for i := 0; i < len(scope) && i < 40; i++ {
		fi := scope[i]
		for _, call := range callsIn(fi.Decl.Body, true) {
			if fn := calleeOf(fi.Info(), call); fn != nil && !seen[fn] && fn.Pkg() != nil && fn.Pkg().Path() == pMigrate {
				seen[fn] = true
				if cf := c.FuncInfoOf(fn); cf != nil && cf.Decl.Body != nil && len(scope) < 40 {
					scope = append(scope, cf)
				}
			}
		}
	}
	n := 0
	for _, fi := range scope {
		info := fi.Info()
		pm := parentMap(fi.Decl.Body)
		ast.Inspect(fi.Decl.Body, func(m ast.Node) bool {
			as, ok := m.(*ast.AssignStmt)
			if !ok || len(as.Lhs) != 2 || len(as.Rhs) != 1 {
				return true
			}
			call, ok := as.Rhs[0].(*ast.CallExpr)
			if !ok || len(call.Args) != 3 {
				return true
			}
			fn := calleeOf(info, call)
			if fn == nil || fn.Pkg() == nil || fn.Pkg().Path() != "slices" || fn.Name() != "BinarySearchFunc" {
				return true
			}
			// searching the revisions for a file
			st, ok := info.TypeOf(call.Args[0]).Underlying().(*types.Slice)
			if !ok || !typeIs(derefType(st.Elem()), pMigrate, "Revision") || !typeIs(info.TypeOf(call.Args[1]), pMigrate, "File") {
				return true
			}
			n++
			c.funcs[fi.Name] = true
			idx, _ := as.Lhs[0].(*ast.Ident)
			found, _ := as.Lhs[1].(*ast.Ident)
			okIdx := idx != nil && idx.Name != "_" && found != nil && found.Name != "_"
			good, uses := true, 0
			if okIdx {
				iobj, fobj := info.ObjectOf(idx), info.ObjectOf(found)
				// every boolean context in which `found` is used also consults the matched revision
				ast.Inspect(fi.Decl.Body, func(k ast.Node) bool {
					id, isID := k.(*ast.Ident)
					if !isID || info.ObjectOf(id) != fobj || id == found {
						return true
					}
					uses++
					// the outermost boolean expression containing this use
					var top ast.Node = id
					for p := pm[id]; p != nil; p = pm[p] {
						switch x := p.(type) {
						case *ast.BinaryExpr:
							if x.Op == token.LAND || x.Op == token.LOR {
								top = x
								continue
							}
						case *ast.UnaryExpr, *ast.ParenExpr:
							top = p
							continue
						}
						break
					}
					reads, consulted := map[string]bool{}, false
					ast.Inspect(top, func(j ast.Node) bool {
						if ix, ok := j.(*ast.IndexExpr); ok {
							if iid, ok := ast.Unparen(ix.Index).(*ast.Ident); ok && info.ObjectOf(iid) == iobj && types.ExprString(ix.X) == types.ExprString(call.Args[0]) {
								consulted = true
							}
						}
						if se, ok := j.(*ast.SelectorExpr); ok {
							if ix, ok := ast.Unparen(se.X).(*ast.IndexExpr); ok {
								if iid, ok := ast.Unparen(ix.Index).(*ast.Ident); ok && info.ObjectOf(iid) == iobj {
									if v, isVar := info.ObjectOf(se.Sel).(*types.Var); isVar && v.IsField() {
										reads[se.Sel.Name] = true
									}
								}
							}
						}
						return true
					})
					if !(reads["Applied"] && reads["Total"] || consulted && len(reads) == 0) {
						good = false
					}
					return true
				})
			}
			c.Check(rule, fi.Name+"|"+types.ExprString(call.Args[0])+" look-up of "+types.ExprString(call.Args[1])+" requires a complete revision", as.Pos(), okIdx && good && uses > 0, "%s treats a file as done as soon as a revision with its version exists, without looking at Applied/Total of that revision: a file that was run out of order (non-linear) and failed half way is never resumed and `migrate status` reports no pending files", fi.Name)
			return true
		})
	}
	if n == 0 {
		c.Unresolved(rule, "Executor.Pending: the look-up of a file's revision among the applied revisions")
	}
}

// isPendingWrapper reports whether fn is a module-local function all of whose
// return statements return the result of Executor.Pending (or of another such wrapper).
func isPendingWrapper(c *Ctx, fn *types.Func, depth int) bool {
	if depth <= 0 || fn.Pkg() == nil || fn.Pkg().Path() != pMigrate {
		return false
	}
	fi := c.FuncInfoOf(fn)
	if fi == nil || fi.Decl.Body == nil {
		return false
	}
	info := fi.Info()
	rets, good := 0, 0
	ast.Inspect(fi.Decl.Body, func(k ast.Node) bool {
		if _, isLit := k.(*ast.FuncLit); isLit {
			return false
		}
		if rs, ok := k.(*ast.ReturnStmt); ok {
			rets++
			if len(rs.Results) == 1 {
				if cl, ok := ast.Unparen(rs.Results[0]).(*ast.CallExpr); ok {
					g := calleeOf(info, cl)
					if funcIs(g, pMigrate, "Executor", "Pending") || g != nil && g != fn && isPendingWrapper(c, g, depth-1) {
						good++
					}
				}
			}
		}
		return true
	})
	return rets > 0 && rets == good
}

// lenMinusConst evaluates e to cn*len(arr) + k, resolving local variables that are assigned exactly once.
func lenMinusConst(info *types.Info, body ast.Node, e ast.Expr, arr string, depth int) (cn, k int, ok bool) {
	e = ast.Unparen(e)
	if depth > 4 {
		return 0, 0, false
	}
	if tv := info.Types[e]; tv.Value != nil {
		if v, err := parseInt(tv.Value.String()); err == nil {
			return 0, v, true
		}
	}
	if a := lenArg(info, e); a != nil && types.ExprString(a) == arr {
		return 1, 0, true
	}
	switch x := e.(type) {
	case *ast.Ident:
		obj := info.ObjectOf(x)
		var def ast.Expr
		cnt := 0
		ast.Inspect(body, func(m ast.Node) bool {
			switch y := m.(type) {
			case *ast.AssignStmt:
				for j, l := range y.Lhs {
					if id, isID := l.(*ast.Ident); isID && info.ObjectOf(id) == obj {
						cnt++
						if len(y.Rhs) == len(y.Lhs) {
							def = y.Rhs[j]
						} else {
							cnt += 10
						}
					}
				}
			case *ast.IncDecStmt:
				if id, isID := y.X.(*ast.Ident); isID && info.ObjectOf(id) == obj {
					cnt += 10
				}
			}
			return true
		})
		if cnt == 1 && def != nil {
			return lenMinusConst(info, body, def, arr, depth+1)
		}
	case *ast.BinaryExpr:
		an, ak, ok1 := lenMinusConst(info, body, x.X, arr, depth+1)
		bn, bk, ok2 := lenMinusConst(info, body, x.Y, arr, depth+1)
		if ok1 && ok2 {
			switch x.Op {
			case token.ADD:
				return an + bn, ak + bk, true
			case token.SUB:
				return an - bn, ak - bk, true
			}
		}
	}
	return 0, 0, false
}

// eval3 evaluates a boolean expression with three values (1 true, 0 false, -1 unknown);
// atom gives the value of the atoms it knows.
func eval3(e ast.Expr, atom func(ast.Expr) int) int {
	e = ast.Unparen(e)
	if v := atom(e); v >= 0 {
		return v
	}
	switch x := e.(type) {
	case *ast.UnaryExpr:
		if x.Op == token.NOT {
			switch eval3(x.X, atom) {
			case 1:
				return 0
			case 0:
				return 1
			}
		}
	case *ast.BinaryExpr:
		a, b := eval3(x.X, atom), eval3(x.Y, atom)
		switch x.Op {
		case token.LAND:
			if a == 0 || b == 0 {
				return 0
			}
			if a == 1 && b == 1 {
				return 1
			}
		case token.LOR:
			if a == 1 || b == 1 {
				return 1
			}
			if a == 0 && b == 0 {
				return 0
			}
		}
	}
	return -1
}

// keepsIffNotCheckpoint decides on the CFG of one loop iteration that the element is appended
// exactly when it is not a checkpoint file: under the assumption "it is a checkpoint" (type
// assertion ok, IsCheckpoint() true) the append is unreachable before the next iteration; under
// "IsCheckpoint() false" and under "assertion failed" it is reachable.
func keepsIffNotCheckpoint(c *Ctx, fi *FuncInfo, loop *ast.RangeStmt) bool {
	info := fi.Info()
	f := newFlow(info, fi.Decl.Body)
	isCkCall := func(e ast.Expr) bool {
		call, ok := ast.Unparen(e).(*ast.CallExpr)
		if !ok {
			return false
		}
		fn := calleeOf(info, call)
		return fn != nil && c.mayReach(fn, func(g *types.Func) bool { return g.Name() == "IsCheckpoint" }, 2)
	}
	// the `ok` results of type assertions in the loop
	okVars := map[types.Object]bool{}
	ast.Inspect(loop.Body, func(m ast.Node) bool {
		as, ok := m.(*ast.AssignStmt)
		if ok && len(as.Lhs) == 2 && len(as.Rhs) == 1 {
			if _, isTA := ast.Unparen(as.Rhs[0]).(*ast.TypeAssertExpr); isTA {
				if id, ok := as.Lhs[1].(*ast.Ident); ok {
					okVars[info.ObjectOf(id)] = true
				}
			}
		}
		return true
	})
	isKeep := func(nd ast.Node) bool {
		as, ok := nd.(*ast.AssignStmt)
		if !ok || len(as.Rhs) != 1 {
			return false
		}
		call, ok := as.Rhs[0].(*ast.CallExpr)
		return ok && builtinName(info, call) == "append" && len(call.Args) == 2 && appendsLoopVar(info, call.Args[1], loop)
	}
	var starts []point
	for _, b := range f.G.Blocks {
		if b.Live && b.Kind == cfg.KindRangeBody && b.Stmt == ast.Stmt(loop) {
			starts = append(starts, point{b, 0})
		}
	}
	if len(starts) == 0 || len(f.find(isKeep)) == 0 {
		return false
	}
	reachKeep := func(ckVal, okVal int) bool {
		atom := func(e ast.Expr) int {
			if isCkCall(e) {
				return ckVal
			}
			if id, ok := e.(*ast.Ident); ok && okVars[info.ObjectOf(id)] {
				return okVal
			}
			return -1
		}
		stop := func(b *cfg.Block, si int) bool {
			cond, _, _ := condOf(b)
			if cond == nil {
				return false
			}
			switch eval3(cond, atom) {
			case 1:
				return si != 0 // condition true: the false edge is infeasible
			case 0:
				return si == 0
			}
			return false
		}
		// stay within the iteration: stop at the next evaluation of the loop header
		found := false
		seen := map[*cfg.Block]bool{}
		var walk func(b *cfg.Block, i int)
		walk = func(b *cfg.Block, i int) {
			if found || (i == 0 && seen[b]) {
				return
			}
			if i == 0 {
				seen[b] = true
			}
			for j := i; j < len(b.Nodes); j++ {
				if isKeep(b.Nodes[j]) {
					found = true
					return
				}
				if isReturn(b.Nodes[j]) {
					return
				}
			}
			for si, s := range b.Succs {
				if stop(b, si) || (s.Kind == cfg.KindRangeLoop && s.Stmt == ast.Stmt(loop)) {
					continue
				}
				walk(s, 0)
			}
		}
		for _, st := range starts {
			walk(st.b, st.i)
		}
		return found
	}
	return !reachKeep(1, 1) && reachKeep(0, 1) && reachKeep(-1, 0)
}
