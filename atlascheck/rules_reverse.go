package main

import (
	"go/ast"
	"go/token"
	"go/types"
	"golang.org/x/tools/go/ssa"
	"strings"
	"text/template/parse"

	"golang.org/x/tools/go/cfg"
)

func init() {
	register("C17", &propCheck{
		explanation: "Pairing, ownership and template rules: (a) in the ALTER TABLE builders of the MySQL and PostgreSQL planners every case of the change switch that can complete without error records a reverse change or updates the reversible flag on every such path; in all three planners every migrate.Change literal that sets Cmd sets Reverse or is a listed irreversible statement; (b) Plan.Reversible is computed by SetReversible over all changes on every success path of PlanChanges and no other store can set it to true; (c) every down section of the sqltool formatters ranges over `rev .Changes` and prints .ReverseStmts in order, and the rev function is a pure reversal.",
		undecided:   []string{"that the reverse SQL, executed on an engine, composes to an inverse of the forward plan", "content of the reverse clause (only its presence / the flag is decided)"},
		run:         runC17,
	})
}

func runC17(c *Ctx) {
	c.Rule("R17a", "alterTable builders (mysql, postgres): in the change type switch every case that can reach a non-error exit appends to the reverse list or assigns the reversible flag on every such path", 15)
	c.Rule("R17b", "Plan.Reversible: SetReversible ranges over all plan changes, clears the flag when a change has no reverse statements and never sets it inside the loop; each PlanChanges calls it on every success path; any other store can only clear it (the constant false, or a conjunction with its current value)", 4)
	c.Rule("R17c", "sqltool down templates range over `rev .Changes` and print every element of .ReverseStmts; the up part ranges over .Changes; `rev` reverses a copy", 4)
	c.Rule("R17e", "alterTable builders: the reverse change recorded in a case is the inverse kind of the case's change (Add<X>↔Drop<X> with the same payload, Modify<X>/Rename<X> with From/To swapped)", 15)

	c.Rule("R17h", "alterTable builders: the reversible flag is monotone: every assignment is the constant false or a conjunction that includes the flag itself", 3)
	c.Rule("R17g", "planner statements: in every migrate.Change literal that sets both Cmd and Reverse, each object path named by the reverse statement (argument of Ident/Table/…) is covered by an object path the forward statement is built from in the same function", 10)
	c.Rule("R17f", "alterTable builders: the reverse statement is stored only under `if reversible`, after sqlx.ReverseChanges(reverse) reversed the recorded changes", 4)
	c.Rule("R17i", ruleTextFreshScratch, 4)
	checkFreshScratchState(c, "R17i", []string{pSqlite, pMysql, pPostgres})
	c.Rule("R17k", ruleTextScratchStates, 2)
	checkScratchStates(c, "R17k")
	c.Rule("R17m", ruleTextReverseFromDropped, 3)
	checkReverseFromDropped(c, "R17m")
	c.Rule("R17n", ruleTextDetachedCopy, 2)
	checkDetachedCopy(c, "R17n")
	c.Rule("R17l", ruleTextReverseRestoresGuarded, 2)
	checkReverseRestoresGuarded(c, "R17l")
	c.Rule("R17j", ruleTextReversal, 1)
	checkReverseIdiom(c, "R17j")
	for _, pp := range []string{pMysql, pPostgres} {
		checkAlterPairing(c, pp)
	}
	checkSetReversible(c)
	checkDownTemplates(c)
	checkReverseNames(c)
}

func isSchemaChangeSlice(t types.Type) bool {
	if t == nil {
		return false
	}
	if n := namedOf(t); n != nil && n.Obj().Name() == "Changes" && n.Obj().Pkg() != nil && n.Obj().Pkg().Path() == pSchema {
		return true
	}
	sl, ok := t.Underlying().(*types.Slice)
	if !ok {
		return false
	}
	return typeIs(sl.Elem(), pSchema, "Change")
}

func checkAlterPairing(c *Ctx, pkgPath string) {
	fi := c.Func("R17a", pkgPath, "state", "alterTable")
	if fi == nil {
		return
	}
	info := fi.Info()
	pm := parentMap(fi.Decl)
	// the planner switch: a type switch with a case for *schema.AddColumn
	var sw *ast.TypeSwitchStmt
	ast.Inspect(fi.Decl.Body, func(m ast.Node) bool {
		ts, ok := m.(*ast.TypeSwitchStmt)
		if !ok || sw != nil {
			return true
		}
		for _, cl := range ts.Body.List {
			for _, e := range cl.(*ast.CaseClause).List {
				if typeIs(info.TypeOf(e), pSchema, "AddColumn") {
					sw = ts
				}
			}
		}
		return true
	})
	if sw == nil {
		c.Unresolved("R17a", shortPkg(pkgPath)+".alterTable: type switch over the table changes")
		return
	}
	checkReverseKinds(c, fi, sw)
	checkReverseBuild(c, fi)
	// enclosing function literal (the MapCommaErr callback) or the declaration
	var body *ast.BlockStmt
	if fl, ok := enclosing(pm, sw, func(n ast.Node) bool { _, ok := n.(*ast.FuncLit); return ok }).(*ast.FuncLit); ok {
		body = fl.Body
	} else {
		body = fi.Decl.Body
	}
	f := newFlow(info, body)
	// pairing stores: assignment to a variable declared in alterTable but outside `body`
	// whose type is []schema.Change (reverse list) or bool (reversible flag).
	isPairing := func(n ast.Node) bool {
		hit := false
		walkShallow(n, func(m ast.Node) bool {
			as, ok := m.(*ast.AssignStmt)
			if !ok {
				return true
			}
			for _, l := range as.Lhs {
				id, ok := l.(*ast.Ident)
				if !ok {
					continue
				}
				o := info.ObjectOf(id)
				if o == nil || !(fi.Decl.Pos() <= o.Pos() && o.Pos() < fi.Decl.End()) {
					continue
				}
				if body != fi.Decl.Body && body.Pos() <= o.Pos() && o.Pos() < body.End() {
					continue
				}
				if isSchemaChangeSlice(o.Type()) {
					hit = true
				}
				if b, ok := o.Type().Underlying().(*types.Basic); ok && b.Kind() == types.Bool {
					hit = true
				}
			}
			return true
		})
		return hit
	}
	okExit := func(n ast.Node) bool {
		r, ok := n.(*ast.ReturnStmt)
		if !ok {
			return false
		}
		if len(r.Results) == 0 {
			return true
		}
		return isNilIdent(info, r.Results[len(r.Results)-1])
	}
	// R17h: the reversible flag is monotone
	ast.Inspect(fi.Decl.Body, func(m ast.Node) bool {
		as, ok := m.(*ast.AssignStmt)
		if !ok {
			return true
		}
		for i, l := range as.Lhs {
			id, ok := l.(*ast.Ident)
			if !ok || i >= len(as.Rhs) {
				continue
			}
			o := info.ObjectOf(id)
			if o == nil || !(fi.Decl.Pos() <= o.Pos() && o.Pos() < fi.Decl.End()) {
				continue
			}
			if b, ok := o.Type().Underlying().(*types.Basic); !ok || b.Kind() != types.Bool {
				continue
			}
			if _, isVar := o.(*types.Var); !isVar || o.Name() == "ok" {
				continue
			}
			// only flags that gate the store of Change.Reverse: a bool declared at function level
			if o.Parent() != info.Scopes[fi.Decl.Type] {
				continue
			}
			rhs := as.Rhs[i]
			mono := false
			if tv := info.Types[rhs]; tv.Value != nil && tv.Value.String() == "false" {
				mono = true
			}
			for _, f := range impliedFacts(rhs, true) {
				if x, ok := f.expr.(*ast.Ident); ok && f.val && info.ObjectOf(x) == o {
					mono = true
				}
			}
			c.Check("R17h", shortPkg(pkgPath)+".alterTable|"+o.Name()+" = "+types.ExprString(rhs), as.Pos(), mono, "the reversible flag is assigned `%s`, which can turn it back to true after an earlier irreversible change cleared it; it must only be cleared (false) or and-ed with itself", types.ExprString(rhs))
		}
		return true
	})
	for _, cl := range sw.Body.List {
		cc := cl.(*ast.CaseClause)
		if cc.List == nil {
			continue // default
		}
		var names []string
		for _, e := range cc.List {
			if n := namedOf(info.TypeOf(e)); n != nil {
				names = append(names, n.Obj().Name())
			}
		}
		key := shortPkg(pkgPath) + ".alterTable|case " + strings.Join(names, ",")
		var starts []point
		for _, b := range f.G.Blocks {
			if b.Kind == cfg.KindSwitchCaseBody && b.Stmt == ast.Stmt(cc) {
				starts = append(starts, point{b, 0})
			}
		}
		if len(starts) == 0 {
			c.Unresolved("R17a", key+": CFG block of the case body")
			continue
		}
		n, found := f.reach(starts, isPairing, okExit, true)
		c.Check("R17a", key, cc.Pos(), !found, "case %s can complete (reaching %s) without recording a reverse change or updating the reversible flag: the plan would be reported reversible with an incomplete reverse statement", strings.Join(names, ","), c.nodeAtOrEnd(n))
	}
}

func checkSetReversible(c *Ctx) {
	fi := c.Func("R17b", pSqlx, "", "SetReversible")
	if fi != nil {
		info := fi.Info()
		var loop *ast.RangeStmt
		ast.Inspect(fi.Decl.Body, func(m ast.Node) bool {
			if rs, ok := m.(*ast.RangeStmt); ok && loop == nil {
				loop = rs
			}
			return true
		})
		ok := loop != nil && isField(info, loop.X, pMigrate, "Plan", "Changes")
		c.Check("R17b", "SetReversible|ranges over p.Changes", fi.Decl.Pos(), ok, "SetReversible must range over all of p.Changes")
		if loop != nil {
			// no early exit from the loop other than an error return
			early := false
			ast.Inspect(loop.Body, func(m ast.Node) bool {
				if s, ok := m.(*ast.BranchStmt); ok && (s.Tok == token.BREAK || s.Tok == token.GOTO) {
					early = true
				}
				return true
			})
			consults := nodeHasCall(info, loop.Body, c.viaHelpers(isCallTo(pMigrate, "Change", "ReverseStmts"), 2)) != nil
			c.Check("R17b", "SetReversible|every change's ReverseStmts is consulted", loop.Pos(), consults && !early, "SetReversible must look at Change.ReverseStmts() of every planned change (consulted=%v, loop can be left early=%v)", consults, early)
			// the stored flag depends on those results and is not a constant (SSA backward slice incl. controlling conditions)
			dep, konst := false, false
			if fn := c.SSAFunc(fi); fn != nil {
				for _, blk := range fn.Blocks {
					for _, in := range blk.Instrs {
						st, ok := in.(*ssa.Store)
						if !ok {
							continue
						}
						fa, ok := st.Addr.(*ssa.FieldAddr)
						if !ok || fieldName(fa) != "Reversible" {
							continue
						}
						if _, isConst := st.Val.(*ssa.Const); isConst {
							konst = true
						}
						seen := map[ssa.Value]bool{}
						var visit func(v ssa.Value)
						visit = func(v ssa.Value) {
							if v == nil || seen[v] {
								return
							}
							seen[v] = true
							if call, ok := v.(*ssa.Call); ok {
								if callee := call.Common().StaticCallee(); callee != nil {
									if obj, ok := callee.Object().(*types.Func); ok && c.mayReach(obj, func(g *types.Func) bool { return funcIs(g, pMigrate, "Change", "ReverseStmts") }, 2) {
										dep = true
									}
								}
							}
							if ins, ok := v.(ssa.Instruction); ok {
								for _, op := range ins.Operands(nil) {
									if op != nil {
										visit(*op)
									}
								}
								if phi, ok := v.(*ssa.Phi); ok {
									// conditions that decide which edge reaches the phi
									for _, pred := range phi.Block().Preds {
										for b := pred; b != nil; b = b.Idom() {
											if len(b.Instrs) > 0 {
												if iff, ok := b.Instrs[len(b.Instrs)-1].(*ssa.If); ok {
													visit(iff.Cond)
												}
											}
										}
									}
								}
							}
						}
						visit(st.Val)
					}
				}
			}
			c.Check("R17b", "SetReversible|the stored flag depends on the reverse statements", loop.Pos(), dep && !konst, "the value SetReversible stores in Plan.Reversible does not depend on Change.ReverseStmts() of the planned changes (or is a constant): an irreversible plan is reported reversible")
		}
	}
	// each PlanChanges calls SetReversible on every success path
	for _, pp := range []string{pMysql, pPostgres, pSqlite} {
		pf := c.Func("R17b", pp, "planApply", "PlanChanges")
		if pf == nil {
			continue
		}
		info := pf.Info()
		f := newFlow(info, pf.Decl.Body)
		pm := parentMap(pf.Decl.Body)
		isSet := f.callNode(isCallTo(pSqlx, "", "SetReversible"))
		okRet := func(n ast.Node) bool { return isReturn(n) && !inErrBranch(info, pm, n) }
		n, found := f.reachErrAware([]point{f.entry()}, isSet, okRet, true)
		c.Check("R17b", shortPkg(pp)+".PlanChanges|SetReversible on success paths", nodePos(n, pf.Decl.Pos()), !found, "PlanChanges can return a plan at %s without SetReversible having been called", c.nodeAtOrEnd(n))
	}
	// other stores to Plan.Reversible
	c.AllFuncs(false, func(fi *FuncInfo) {
		if fi.Name == "sqlx.SetReversible" {
			return
		}
		info := fi.Info()
		ast.Inspect(fi.Decl.Body, func(m ast.Node) bool {
			as, ok := m.(*ast.AssignStmt)
			if !ok {
				return true
			}
			for i, l := range as.Lhs {
				if isField(info, l, pMigrate, "Plan", "Reversible") {
					isFalse := false
					if i < len(as.Rhs) {
						if tv := info.Types[as.Rhs[i]]; tv.Value != nil && tv.Value.String() == "false" {
							isFalse = true
						}
						// `x = x && …` can only clear the flag as well
						var conj func(e ast.Expr) bool
						conj = func(e ast.Expr) bool {
							e = ast.Unparen(e)
							if types.ExprString(e) == types.ExprString(ast.Unparen(l)) {
								return true
							}
							if be, ok := e.(*ast.BinaryExpr); ok && be.Op == token.LAND {
								return conj(be.X) || conj(be.Y)
							}
							return false
						}
						if be, ok := ast.Unparen(as.Rhs[i]).(*ast.BinaryExpr); ok && be.Op == token.LAND && conj(be) {
							isFalse = true
						}
					}
					c.Check("R17b", fi.Name+"|store Plan.Reversible", l.Pos(), isFalse, "Plan.Reversible is stored outside SetReversible with a value that can set it (other than the constant false or a conjunction with its current value)")
				}
			}
			return true
		})
	})
}

// checkDownTemplates parses the template constants of sqltool.
func checkDownTemplates(c *Ctx) {
	p := c.Pkg(pSqltool)
	info := p.TypesInfo
	found := 0
	for _, file := range p.Syntax {
		if strings.HasSuffix(c.Fset.Position(file.Pos()).Filename, "_test.go") {
			continue
		}
		ast.Inspect(file, func(m ast.Node) bool {
			vs, ok := m.(*ast.ValueSpec)
			if !ok || len(vs.Values) != 1 {
				return true
			}
			call, ok := vs.Values[0].(*ast.CallExpr)
			if !ok {
				return true
			}
			if id, ok := call.Fun.(*ast.Ident); !ok || id.Name != "templateFormatter" {
				return true
			}
			name := vs.Names[0].Name
			for i := 1; i < len(call.Args); i += 2 {
				nameT, _ := stringConst(info, call.Args[i-1])
				text, ok := stringConst(info, call.Args[i])
				if !ok {
					c.Unresolved("R17c", name+": template argument is not a constant")
					continue
				}
				found++
				checkOneTemplate(c, name, nameT, text, call.Args[i].Pos())
			}
			return true
		})
	}
	if found < 5 {
		c.Unresolved("R17c", "sqltool templateFormatter(...) constants")
	}
	// the rev function itself is decided by R17j (complete reversal idioms)
}

func checkOneTemplate(c *Ctx, fmtr, nameT, text string, pos token.Pos) {
	trees, err := parse.Parse("t", text, "{{", "}}", templateFuncsMap(c))
	if err != nil {
		c.Check("R17c", fmtr+"|"+nameT+"|parses", pos, false, "template does not parse: %v", err)
		return
	}
	tree := trees["t"]
	// walk: find range nodes; classify by pipeline
	type rng struct {
		pipe string
		body *parse.ListNode
	}
	var ranges []rng
	var walk func(n parse.Node)
	walk = func(n parse.Node) {
		switch x := n.(type) {
		case *parse.ListNode:
			if x == nil {
				return
			}
			for _, k := range x.Nodes {
				walk(k)
			}
		case *parse.RangeNode:
			ranges = append(ranges, rng{x.Pipe.String(), x.List})
			walk(x.List)
			walk(x.ElseList)
		case *parse.IfNode:
			walk(x.List)
			walk(x.ElseList)
		case *parse.WithNode:
			walk(x.List)
			walk(x.ElseList)
		}
	}
	walk(tree.Root)
	isDown := strings.Contains(nameT, ".down.") || strings.HasPrefix(nameT, "U{{")
	hasDownSection := strings.Contains(text, "+goose Down") || strings.Contains(text, "migrate:down")
	var up, down, revStmts int
	for _, r := range ranges {
		switch {
		case strings.Contains(r.pipe, "rev .Changes"):
			down++
			if strings.Contains(r.body.String(), ".ReverseStmts") {
				// inner range over the statements
				for _, r2 := range ranges {
					if strings.Contains(r2.pipe, "$stmts") && printsDot(trees, r2.body) {
						revStmts++
					}
				}
			}
		case strings.Contains(r.pipe, ".Changes"):
			up++
		}
	}
	key := fmtr + "|" + nameT
	switch {
	case isDown:
		c.Check("R17c", key+"|down file", pos, down == 1 && up == 0 && revStmts >= 1, "a down file must consist of one range over `rev .Changes` printing every element of .ReverseStmts (rev-ranges=%d plain-ranges=%d stmt-ranges=%d)", down, up, revStmts)
	case hasDownSection:
		// the up range precedes the down marker, the rev range follows it
		marker := strings.Index(text, "+goose Down")
		if marker < 0 {
			marker = strings.Index(text, "migrate:down")
		}
		upIdx := strings.Index(text, "range .Changes")
		downIdx := strings.Index(text, "rev .Changes")
		c.Check("R17c", key+"|up/down sections", pos, down == 1 && up == 1 && revStmts >= 1 && upIdx >= 0 && upIdx < marker && marker < downIdx, "the up section must range over .Changes before the down marker and the down section over `rev .Changes` (printing .ReverseStmts) after it")
	default:
		// up-only file or liquibase (rollback lines per change)
		c.Check("R17c", key+"|up file", pos, up == 1 && down == 0, "an up file must consist of one range over .Changes")
	}
}

// inverseKind maps a change type to the type of its reverse.
func inverseKind(name string) string {
	switch {
	case strings.HasPrefix(name, "Add"):
		return "Drop" + strings.TrimPrefix(name, "Add")
	case strings.HasPrefix(name, "Drop"):
		return "Add" + strings.TrimPrefix(name, "Drop")
	}
	return name // Modify*, Rename*
}

// specialInverse: dialect-specific change kinds whose reverse is a generic kind.
var specialInverse = map[string]string{
	"AddUniqueConstraint": "DropIndex",
	"AddPKConstraint":     "DropPrimaryKey",
}

func checkReverseKinds(c *Ctx, fi *FuncInfo, sw *ast.TypeSwitchStmt) {
	info := fi.Info()
	changeIface := c.NamedType(pSchema, "Change").Underlying().(*types.Interface)
	var bound types.Object // the variable bound by the type switch, per clause via Implicits
	for _, cl := range sw.Body.List {
		cc := cl.(*ast.CaseClause)
		if len(cc.List) != 1 {
			continue
		}
		tn := namedOf(info.TypeOf(cc.List[0]))
		if tn == nil {
			continue
		}
		bound = info.Implicits[cc]
		want := inverseKind(tn.Obj().Name())
		if sp, ok := specialInverse[tn.Obj().Name()]; ok {
			want = sp
		}
		special := specialInverse[tn.Obj().Name()] != ""
		for _, st := range cc.Body {
			ast.Inspect(st, func(m ast.Node) bool {
				call, ok := m.(*ast.CallExpr)
				if !ok || builtinName(info, call) != "append" || len(call.Args) < 2 || !isSchemaChangeSlice(info.TypeOf(call.Args[0])) {
					return true
				}
				for _, a := range call.Args[1:] {
					un, ok := a.(*ast.UnaryExpr)
					if !ok {
						continue
					}
					lit, ok := un.X.(*ast.CompositeLit)
					if !ok || !types.Implements(info.TypeOf(un), changeIface) {
						continue
					}
					ln := namedOf(info.TypeOf(lit))
					key := fi.Name + "|case " + tn.Obj().Name() + "→" + ln.Obj().Name()
					if ln.Obj().Name() != want {
						c.Check("R17e", key, lit.Pos(), false, "the reverse of %s must be a %s, not a %s", tn.Obj().Name(), want, ln.Obj().Name())
						continue
					}
					// field discipline
					ok2, why := true, ""
					for _, e := range lit.Elts {
						kv, isKV := e.(*ast.KeyValueExpr)
						if !isKV {
							continue
						}
						k := kv.Key.(*ast.Ident).Name
						val, isSel := kv.Value.(*ast.SelectorExpr)
						fromBound := false
						if isSel {
							if x, ok := val.X.(*ast.Ident); ok && bound != nil && info.ObjectOf(x) == bound {
								fromBound = true
							}
						}
						switch k {
						case "From":
							if !fromBound || val.Sel.Name != "To" {
								ok2, why = false, "From must be the forward change's To"
							}
						case "To":
							if !fromBound || val.Sel.Name != "From" {
								ok2, why = false, "To must be the forward change's From"
							}
						case "C", "I", "P", "F", "A":
							if !special && (!fromBound || val.Sel.Name != k) {
								ok2, why = false, k+" must be the forward change's "+k
							}
						}
					}
					c.Check("R17e", key, lit.Pos(), ok2, "reverse %s literal: %s", ln.Obj().Name(), why)
				}
				return true
			})
		}
	}
}

func checkReverseBuild(c *Ctx, fi *FuncInfo) {
	info := fi.Info()
	pm := parentMap(fi.Decl.Body)
	f := newFlow(info, fi.Decl.Body)
	isStore := func(n ast.Node) bool {
		for _, l := range writesIn(n) {
			if isField(info, l, pMigrate, "Change", "Reverse") {
				return true
			}
		}
		return false
	}
	pts := f.find(isStore)
	if len(pts) == 0 {
		c.Unresolved("R17f", fi.Name+": store to migrate.Change.Reverse")
		return
	}
	isRev := f.callNode(isCallTo(pSqlx, "", "ReverseChanges"))
	for _, sp := range pts {
		node := sp.b.Nodes[sp.i]
		guarded := false
		for p := pm[node]; p != nil; p = pm[p] {
			if ifs, ok := p.(*ast.IfStmt); ok {
				if id, ok := ifs.Cond.(*ast.Ident); ok {
					if b, ok := info.TypeOf(id).Underlying().(*types.Basic); ok && b.Kind() == types.Bool && ifs.Body.Pos() <= node.Pos() && node.End() <= ifs.Body.End() {
						guarded = true
					}
				}
			}
		}
		c.Check("R17f", fi.Name+"|Reverse stored under the reversible flag", node.Pos(), guarded, "Change.Reverse is stored without testing the reversible flag")
		n, ok := f.mustPrecede(isRev, func(m ast.Node) bool { return m == node })
		c.Check("R17f", fi.Name+"|ReverseChanges≺build(reverse)", nodePos(n, node.Pos()), ok, "the reverse statement is built without reversing the order of the recorded changes first")
	}
}

// checkReverseNames: see R17g.
func checkReverseNames(c *Ctx) {
	for _, pp := range []string{pMysql, pPostgres, pSqlite} {
		c.AllFuncs(false, func(fi *FuncInfo) {
			if fi.Pkg.PkgPath != pp {
				return
			}
			info := fi.Info()
			n := 0
			ast.Inspect(fi.Decl.Body, func(m ast.Node) bool {
				cl, ok := m.(*ast.CompositeLit)
				if !ok || !typeIs(info.TypeOf(cl), pMigrate, "Change") {
					return true
				}
				var cmd, rev ast.Expr
				for _, e := range cl.Elts {
					if kv, ok := e.(*ast.KeyValueExpr); ok {
						switch kv.Key.(*ast.Ident).Name {
						case "Cmd":
							cmd = kv.Value
						case "Reverse":
							rev = kv.Value
						}
					}
				}
				if cmd == nil || rev == nil {
					return true
				}
				// object paths named by the reverse expression: selector-path arguments of calls inside rev
				var revPaths []ast.Expr
				ast.Inspect(rev, func(k ast.Node) bool {
					if call, ok := k.(*ast.CallExpr); ok && builtinName(info, call) == "" {
						for _, a := range call.Args {
							if p := selPath(a); p != "" && strings.Contains(p, ".") {
								// the planned changes of a scratch planner state are statements, not object names
								if r := rootIdent(a); r != nil && info.ObjectOf(r) != nil && typeIs(derefType(info.ObjectOf(r).Type()), pp, "state") {
									continue
								}
								revPaths = append(revPaths, a)
							}
						}
					}
					return true
				})
				if len(revPaths) == 0 {
					return true
				}
				// forward paths: selector-path arguments (and receivers) of every call in the function outside rev
				type fp struct {
					path string
					root types.Object
				}
				var fwd []fp
				ast.Inspect(fi.Decl.Body, func(k ast.Node) bool {
					if k == ast.Node(rev) {
						return false
					}
					if call, ok := k.(*ast.CallExpr); ok {
						for _, a := range call.Args {
							if un, ok := a.(*ast.UnaryExpr); ok {
								a = un.X
							}
							if p := selPath(a); p != "" {
								if r := rootIdent(a); r != nil {
									fwd = append(fwd, fp{p, info.ObjectOf(r)})
								}
							}
						}
					}
					return true
				})
				for _, rp := range revPaths {
					p := selPath(rp)
					root := info.ObjectOf(rootIdent(rp))
					covered := false
					for _, f := range fwd {
						if f.root == root && (f.path == p || strings.HasPrefix(p, f.path+".")) {
							covered = true
						}
					}
					n++
					c.Check("R17g", fi.Name+"|reverse names "+p, rp.Pos(), covered, "the reverse statement names %s, but the forward statement of the same change is not built from %s (or a prefix of it): forward and reverse may refer to different objects/names", p, p)
				}
				return true
			})
		})
	}
}

// printsDot reports whether the list prints the range element: a printf/print action over `.`,
// or a {{ template "x" . }} whose definition does.
func printsDot(trees map[string]*parse.Tree, body *parse.ListNode) bool {
	found := false
	var walk func(n parse.Node, depth int)
	walk = func(n parse.Node, depth int) {
		switch x := n.(type) {
		case *parse.ListNode:
			if x == nil {
				return
			}
			for _, k := range x.Nodes {
				walk(k, depth)
			}
		case *parse.ActionNode:
			s := x.String()
			if strings.Contains(s, "print") && strings.Contains(s, " .") || s == "{{.}}" {
				found = true
			}
		case *parse.IfNode:
			walk(x.List, depth)
			walk(x.ElseList, depth)
		case *parse.WithNode:
			walk(x.List, depth)
			walk(x.ElseList, depth)
		case *parse.TemplateNode:
			if depth < 2 && x.Pipe != nil && strings.TrimSpace(x.Pipe.String()) == "." {
				if t := trees[x.Name]; t != nil {
					walk(t.Root, depth+1)
				}
			}
		}
	}
	walk(body, 0)
	return found
}

// fieldName returns the name of the struct field addressed by fa.
func fieldName(fa *ssa.FieldAddr) string {
	t := fa.X.Type()
	if p, ok := t.Underlying().(*types.Pointer); ok {
		t = p.Elem()
	}
	if st, ok := t.Underlying().(*types.Struct); ok && fa.Field < st.NumFields() {
		return st.Field(fa.Field).Name()
	}
	return ""
}
