package main

import (
	"go/ast"
	"go/token"
	"go/types"
	"strings"

	"golang.org/x/tools/go/cfg"
	"golang.org/x/tools/go/ssa"
)

func init() {
	register("C16", &propCheck{
		explanation: "Who-may-read and shape rules for the schema name. (a) Among all functions reachable from the three PlanChanges entry points (CHA call graph) the field Schema.Name is read only in a closed table of places: the qualifier-aware sinks (Builder.mayQualify, postgres typeIdent/schemaPrefix), whose read sits in a case that comes after the case testing the requested qualifier; the documented cross-schema reference (Builder.RefTable); comparisons (SameSchema, dependsOn, CheckChangesScope); and the handlers of Add/Drop/ModifySchema, which the scope check rejects. Any other read can leak the name into statement text. (b) The MySQL/PostgreSQL planners never print a table/view/schema name through the raw Ident writer, only through the qualifier-aware writers; the SQLite planner never reads Schema.Name. (c) plan() calls CheckChangesScope first whenever a qualifier is set. (d) The scope check records, for every schema it guards on, that same schema's name. (e) The CLI requests the empty qualifier exactly under URL.Schema != \"\".",
		undecided:   []string{"token-level absence of the name for every change set (would need running the planners)", "that RefTable's cross-schema reference is what the user wants in multi-tenant use"},
		run:         runC16,
	})
}

// allowedSchemaNameReaders: function → reason.
var allowedSchemaNameReaders = map[string]string{
	"sqlx.(Builder).mayQualify":      "qualifier-aware sink (shape checked)",
	"postgres.(state).typeIdent":     "qualifier-aware sink (shape checked)",
	"postgres.(state).schemaPrefix":  "qualifier-aware sink (shape checked)",
	"sqlx.(Builder).RefTable":        "documented cross-schema foreign-key reference under the empty qualifier",
	"sqlx.SameSchema":                "comparison only",
	"sqlx.dependsOn":                 "comparison only (ordering)",
	"sqlx.CheckChangesScope":         "the scope check itself",
	"mysql.(state).topLevel":         "AddSchema/DropSchema/ModifySchema handling: rejected by the scope check when a qualifier is set",
	"mysql.(state).modifySchema":     "ModifySchema handling: rejected / in-place only",
	"postgres.(state).topLevel":      "AddSchema/DropSchema/ModifySchema handling: rejected by the scope check when a qualifier is set",
	"postgres.(state).schemaComment": "ModifySchema handling: rejected / in-place only",
	"sqlx.LinkSchemaTables":          "inspection-side linking (comparison only)",
}

var qualifierSinks = map[string]bool{"sqlx.(Builder).mayQualify": true, "postgres.(state).typeIdent": true, "postgres.(state).schemaPrefix": true}

func runC16(c *Ctx) {
	c.Rule("R16a", "schema-name reads: among functions reachable from mysql/postgres/sqlite PlanChanges, Schema.Name is read only in the listed functions; in the qualifier-aware sinks the read is in a switch case that follows the case testing the requested qualifier", 10)
	c.Rule("R16b", "mysql and postgres plan() call sqlx.CheckChangesScope before anything else whenever SchemaQualifier != nil, and return its error", 2)
	c.Rule("R16c", "CheckChangesScope: under a guard `S != nil && S.Name != \"\"` the name recorded is S.Name (each object's own schema)", 2)
	c.Rule("R16d", "the CLI sets a schema qualifier only under `<client>.URL.Schema != \"\"` (planOptions, fmtPlan, migrateDiffRun)", 3)
	c.Rule("R16e", "mysql/postgres planners never write a table, view or schema name through the raw Builder.Ident (only through Table/View/SchemaResource/TableResource/mayQualify); positive control: the same matcher finds sqlite's unqualified table idents", 2)

	c.Rule("R16g", ruleTextPlanOpts, 2)
	checkPlanOptsForwarded(c, "R16g")
	c.Rule("R16h", ruleTextCloneQualifier, 2)
	checkCloneQualifier(c, "R16h")
	c.Rule("R16k", ruleTextTypeStmtIdent, 3)
	checkTypeStmtIdent(c, "R16k")
	c.Rule("R16l", ruleTextTypeTextQualified, 3)
	checkTypeTextQualified(c, "R16l")
	c.Rule("R16o", ruleTextScopeCountsReferences, 1)
	checkScopeCountsReferences(c, "R16o")
	c.Rule("R16n", ruleTextQualifierIndependent, 2)
	checkQualifierIndependent(c, "R16n")
	c.Rule("R16m", ruleTextPrefixUnconditional, 3)
	checkPrefixUnconditional(c, "R16m")
	c.Rule("R16j", ruleTextOptsForwarded, 2)
	checkOptsForwarded(c, "R16j")
	c.Rule("R16i", ruleTextScopeCoversKinds, 2)
	checkScopeCoversKinds(c, "R16i")

	prog := c.SSA()
	cg := c.CHA()
	var roots []*ssa.Function
	for _, pp := range []string{pMysql, pPostgres, pSqlite} {
		fi := c.Func("R16a", pp, "planApply", "PlanChanges")
		if fi == nil {
			continue
		}
		if sf := prog.FuncValue(fi.Obj); sf != nil {
			roots = append(roots, sf)
		}
	}
	reach := cg.ReachSet(roots, func(f *ssa.Function) bool {
		if !inRepo(f) {
			return false
		}
		p := objPkgPath(topParent(f))
		// planning does not inspect: do not wander into inspection / diff / spec code through interface dispatch
		return p == pMysql || p == pPostgres || p == pSqlite || p == pSqlx || p == pMigrate || p == pSchema
	})
	reachNames := map[string]bool{}
	for f := range reach {
		if o := topParent(f).Object(); o != nil {
			if tf, ok := o.(*types.Func); ok {
				if fi := c.FuncInfoOf(tf); fi != nil {
					reachNames[fi.Name] = true
				}
			}
		}
	}
	// enumerate reads
	seenSinks := map[string]bool{}
	c.AllFuncs(false, func(fi *FuncInfo) {
		if !reachNames[fi.Name] {
			return
		}
		fname := c.Fset.Position(fi.Decl.Pos()).Filename
		// inspection / diff / spec files are not planner code even if CHA reaches them
		base := fname[strings.LastIndex(fname, "/")+1:]
		if strings.HasPrefix(base, "inspect") || strings.HasPrefix(base, "diff") || strings.HasPrefix(base, "sqlspec") || strings.HasPrefix(base, "convert") || strings.HasPrefix(base, "driver") || strings.HasPrefix(base, "dev") || strings.HasPrefix(base, "crdb") {
			return
		}
		info := fi.Info()
		n := 0
		ast.Inspect(fi.Decl.Body, func(m ast.Node) bool {
			se, ok := m.(*ast.SelectorExpr)
			if !ok || !isField(info, se, pSchema, "Schema", "Name") {
				return true
			}
			n++
			reason, listed := allowedSchemaNameReaders[fi.Name]
			if !listed {
				if from := helperOfAllowedReader(c, fi); from != "" {
					reason, listed = "helper called only from "+from+": "+allowedSchemaNameReaders[from], true
				}
			}
			if listed && !qualifierSinks[fi.Name] {
				c.Check("R16a", fi.Name+"|reads Schema.Name", se.Pos(), true, "%s", reason)
			}
			return true
		})
		// every other reader (the known sinks, or a helper extracted from one) must be qualifier-aware itself:
		// the read is reachable only after establishing that no qualifier was requested
		_, listedFn := allowedSchemaNameReaders[fi.Name]
		if !listedFn && helperOfAllowedReader(c, fi) != "" {
			listedFn = true
		}
		if listed := listedFn; n > 0 && (!listed || qualifierSinks[fi.Name]) {
			seenSinks[fi.Name] = true
			checkQualifierFirst(c, fi)
		}
	})
	if len(seenSinks) == 0 {
		c.Unresolved("R16a", "qualifier-aware readers of Schema.Name reachable from PlanChanges (none found)")
	}
	// sqlite planner never reads the schema name
	c.AllFuncs(false, func(fi *FuncInfo) {
		if fi.Pkg.PkgPath != pSqlite || !strings.HasSuffix(c.Fset.Position(fi.Decl.Pos()).Filename, "/migrate.go") {
			return
		}
		info := fi.Info()
		ast.Inspect(fi.Decl.Body, func(m ast.Node) bool {
			if se, ok := m.(*ast.SelectorExpr); ok && isField(info, se, pSchema, "Schema", "Name") {
				c.Check("R16a", fi.Name+"|sqlite planner reads Schema.Name", se.Pos(), false, "the SQLite planner (always unqualified) reads Schema.Name in %s", fi.Name)
			}
			return true
		})
	})

	// ---- R16b
	for _, pp := range []string{pMysql, pPostgres} {
		fi := c.Func("R16b", pp, "state", "plan")
		if fi == nil {
			continue
		}
		info := fi.Info()
		f := newFlow(info, fi.Decl.Body)
		isScope := func(n ast.Node) bool {
			call := nodeHasCall(info, n, isCallTo(pSqlx, "", "CheckChangesScope"))
			return call != nil && resultUsed(info, fi.Decl.Body, call)
		}
		anyOther := func(n ast.Node) bool {
			for _, call := range callsIn(n, false) {
				if fn := calleeOf(info, call); fn != nil && !funcIs(fn, pSqlx, "", "CheckChangesScope") {
					return true
				}
			}
			return false
		}
		// edge on which the qualifier is nil: skipping is fine
		qualNil := func(b *cfg.Block, si int) bool {
			return edgeImplies(b, si, func(e ast.Expr, val bool) bool {
				be, ok := e.(*ast.BinaryExpr)
				if !ok || !isNilIdent(info, be.Y) {
					return false
				}
				se, ok := be.X.(*ast.SelectorExpr)
				if !ok || se.Sel.Name != "SchemaQualifier" {
					return false
				}
				return (be.Op == token.NEQ && !val) || (be.Op == token.EQL && val)
			})
		}
		n, found := f.reachEx([]point{f.entry()}, isScope, anyOther, qualNil)
		c.Check("R16b", shortPkg(pp)+".(state).plan|scope check first", nodePos(n, fi.Decl.Pos()), !found, "with a schema qualifier set, %s is reached before sqlx.CheckChangesScope was called (or its result is discarded)", c.nodeAt(n))
	}

	// ---- R16c
	if root := c.Func("R16c", pSqlx, "", "CheckChangesScope"); root != nil {
		scopes := []*FuncInfo{root}
		for _, call := range callsIn(root.Decl.Body, true) {
			if fn := calleeOf(root.Info(), call); fn != nil && fn.Pkg() != nil && fn.Pkg().Path() == pSqlx && fn != root.Obj {
				if g := c.FuncInfoOf(fn); g != nil && g.Decl.Body != nil {
					scopes = append(scopes, g)
				}
			}
		}
		for _, fi := range scopes {
			info := fi.Info()
			ast.Inspect(fi.Decl.Body, func(m ast.Node) bool {
				ifs, ok := m.(*ast.IfStmt)
				if !ok {
					return true
				}
				// guard: facts implied by the condition being true of the form X.Name != ""
				var guarded []string
				for _, fct := range impliedFacts(ifs.Cond, true) {
					be, ok := fct.expr.(*ast.BinaryExpr)
					if !ok || be.Op != token.NEQ || !fct.val {
						continue
					}
					if s, ok := stringConst(info, be.Y); ok && s == "" && isField(info, be.X, pSchema, "Schema", "Name") {
						guarded = append(guarded, types.ExprString(be.X))
					}
				}
				if len(guarded) != 1 {
					return true
				}
				// the body stores names[<expr>]: the expr must be the guarded one
				for _, st := range ifs.Body.List {
					// names[k] = …, or names.add(k) through a method that stores its parameter as the key
					key, ok := nameSetKey(c, info, st)
					if !ok {
						continue
					}
					if isField(info, key, pSchema, "Schema", "Name") {
						got := types.ExprString(key)
						c.Check("R16c", "CheckChangesScope|guard "+guarded[0]+" records "+got, key.Pos(), got == guarded[0], "under the guard on %s the scope check records %s: an object of another schema is attributed to the wrong schema and multi-schema change sets are not rejected", guarded[0], got)
					}
				}
				return true
			})
		}
	}

	// ---- R16d
	c.AllFuncs(false, func(fi *FuncInfo) {
		if !strings.HasPrefix(fi.Pkg.PkgPath, modCmd) {
			return
		}
		info := fi.Info()
		pm := parentMap(fi.Decl.Body)
		check := func(n ast.Node, what string) {
			ok := false
			if underSchemaScope(info, fi.Decl.Body, pm, n) {
				ok = true
			}
			// an option function declared at package level: the guard is where the function is handed out
			if !ok && fi.Decl.Recv == nil && fi.Decl.Type.Params.NumFields() == 1 && typeIs(derefType(info.TypeOf(fi.Decl.Type.Params.List[0].Type)), pMigrate, "PlanOptions") {
				refs, guardedRefs := 0, 0
				c.AllFuncs(false, func(uf *FuncInfo) {
					if uf.Pkg != fi.Pkg {
						return
					}
					uinfo := uf.Info()
					upm := parentMap(uf.Decl.Body)
					ast.Inspect(uf.Decl.Body, func(k ast.Node) bool {
						id, isID := k.(*ast.Ident)
						if !isID || uinfo.ObjectOf(id) != types.Object(fi.Obj) {
							return true
						}
						refs++
						if underSchemaScope(uinfo, uf.Decl.Body, upm, id) {
							guardedRefs++
						}
						return true
					})
				})
				ok = refs > 0 && refs == guardedRefs
			}
			c.Check("R16d", fi.Name+"|"+what, n.Pos(), ok, "%s in %s is not guarded by `<client>.URL.Schema != \"\"`: a realm-scoped connection would get unqualified statements (or a schema-scoped one qualified statements)", what, fi.Name)
		}
		ast.Inspect(fi.Decl.Body, func(m ast.Node) bool {
			switch x := m.(type) {
			case *ast.AssignStmt:
				for _, l := range x.Lhs {
					if isField(info, l, pMigrate, "PlanOptions", "SchemaQualifier") {
						check(x, "store PlanOptions.SchemaQualifier")
					}
				}
			case *ast.CallExpr:
				if funcIs(calleeOf(info, x), pMigrate, "", "PlanWithSchemaQualifier") {
					check(x, "PlanWithSchemaQualifier")
				}
			}
			return true
		})
	})

	// ---- R16f
	c.Rule("R16f", ruleTextScratchStates, 2)
	checkScratchStates(c, "R16f")

	// ---- R16e
	for _, pp := range []string{pMysql, pPostgres, pSqlite} {
		hits := 0
		c.AllFuncs(false, func(fi *FuncInfo) {
			if fi.Pkg.PkgPath != pp || !reachNames[fi.Name] {
				return
			}
			base := c.Fset.Position(fi.Decl.Pos()).Filename
			base = base[strings.LastIndex(base, "/")+1:]
			if !strings.HasPrefix(base, "migrate") && !strings.HasPrefix(base, "tidb") {
				return
			}
			info := fi.Info()
			for _, call := range callsIn(fi.Decl.Body, true) {
				if !funcIs(calleeOf(info, call), pSqlx, "Builder", "Ident") || len(call.Args) != 1 {
					continue
				}
				se, ok := call.Args[0].(*ast.SelectorExpr)
				if !ok || se.Sel.Name != "Name" {
					continue
				}
				t := info.TypeOf(se.X)
				if typeIs(t, pSchema, "Table") || typeIs(t, pSchema, "View") || typeIs(t, pSchema, "Schema") {
					hits++
					if pp != pSqlite {
						// schema idents in Add/Drop/ModifySchema handlers are schema-level statements
						if typeIs(t, pSchema, "Schema") && allowedSchemaNameReaders[fi.Name] != "" {
							continue
						}
						c.Check("R16e", fi.Name+"|Ident("+types.ExprString(call.Args[0])+")", call.Pos(), false, "%s writes %s through the raw Ident writer: the requested schema qualifier is not applied to this reference", fi.Name, types.ExprString(call.Args[0]))
					}
				}
			}
		})
		if pp == pSqlite {
			c.Check("R16e", "positive control|sqlite unqualified table idents", token.NoPos, hits > 0, "the matcher for raw table idents no longer finds the SQLite planner's Ident(t.Name) calls: it would pass vacuously")
		} else {
			c.Check("R16e", shortPkg(pp)+"|no raw table/view idents", token.NoPos, true, "")
		}
	}
}

// checkQualifierFirst: in a qualifier-aware sink every read of Schema.Name is
// reachable from the entry only through the edge on which the requested
// qualifier is nil (switch or if/else form).
func checkQualifierFirst(c *Ctx, fi *FuncInfo) {
	info := fi.Info()
	f := newFlow(info, fi.Decl.Body)
	readsName := func(n ast.Node) bool {
		hit := false
		walkShallow(n, func(m ast.Node) bool {
			if se, ok := m.(*ast.SelectorExpr); ok && isField(info, se, pSchema, "Schema", "Name") {
				hit = true
			}
			return true
		})
		return hit
	}
	isQual := func(e ast.Expr) bool {
		se, ok := e.(*ast.SelectorExpr)
		if !ok || (se.Sel.Name != "Schema" && se.Sel.Name != "SchemaQualifier") {
			return false
		}
		pt, ok := info.TypeOf(e).(*types.Pointer)
		if !ok {
			return false
		}
		b, ok := pt.Elem().Underlying().(*types.Basic)
		return ok && b.Kind() == types.String
	}
	qualNilEdge := func(b *cfg.Block, si int) bool {
		return edgeImplies(b, si, func(e ast.Expr, val bool) bool {
			be, ok := e.(*ast.BinaryExpr)
			if !ok || !isNilIdent(info, be.Y) || !isQual(be.X) {
				return false
			}
			return (be.Op == token.NEQ && !val) || (be.Op == token.EQL && val)
		})
	}
	// a condition that itself mixes the qualifier test and the name read is not accepted
	n, found := f.reachEx([]point{f.entry()}, nil, readsName, qualNilEdge)
	tested := false
	for _, b := range f.G.Blocks {
		for si := range b.Succs {
			if qualNilEdge(b, si) {
				tested = true
			}
		}
	}
	c.Check("R16a", fi.Name+"|qualifier tested before the schema's own name", nodePos(n, fi.Decl.Pos()), tested && !found, "in %s the schema's own name is consulted at %s on a path that did not first establish that no qualifier was requested: a requested qualifier would be ignored", fi.Name, c.nodeAt(n))
}

// underSchemaScope: n lies in a branch taken only when `<x>.URL.Schema != ""`
// — the then-branch of an if whose condition implies it, the else-branch of one
// whose negation does, with the test written inline or kept in a boolean local
// that has a single definition.
func underSchemaScope(info *types.Info, body *ast.BlockStmt, pm map[ast.Node]ast.Node, n ast.Node) bool {
	var scoped func(e ast.Expr, val bool, depth int) bool
	scoped = func(e ast.Expr, val bool, depth int) bool {
		switch x := ast.Unparen(e).(type) {
		case *ast.BinaryExpr:
			if x.Op != token.NEQ && x.Op != token.EQL {
				return false
			}
			str, other := x.Y, x.X
			if s, ok := stringConst(info, x.X); ok && s == "" {
				str, other = x.X, x.Y
			}
			if s, ok := stringConst(info, str); !ok || s != "" {
				return false
			}
			if !strings.HasSuffix(types.ExprString(other), ".URL.Schema") {
				return false
			}
			return (x.Op == token.NEQ) == val
		case *ast.Ident:
			if depth > 2 {
				return false
			}
			obj := info.ObjectOf(x)
			var defs []ast.Expr
			ast.Inspect(body, func(m ast.Node) bool {
				switch a := m.(type) {
				case *ast.AssignStmt:
					for i, l := range a.Lhs {
						if id, ok := l.(*ast.Ident); ok && info.ObjectOf(id) == obj {
							if len(a.Lhs) == len(a.Rhs) {
								defs = append(defs, a.Rhs[i])
							} else {
								defs = append(defs, nil)
							}
						}
					}
				case *ast.ValueSpec:
					for i, id := range a.Names {
						if info.ObjectOf(id) == obj {
							if i < len(a.Values) {
								defs = append(defs, a.Values[i])
							} else {
								defs = append(defs, nil)
							}
						}
					}
				}
				return true
			})
			return len(defs) == 1 && defs[0] != nil && scoped(defs[0], val, depth+1)
		}
		return false
	}
	// facts from enclosing ifs, tagless switch cases (with the negation of earlier cases) and && / || operands
	// (a closure defined under the test inherits it: the walk continues outside each function literal)
	for cur := n; cur != nil; {
		for _, fct := range enclosingFacts(pm, cur) {
			if scoped(fct.expr, fct.val, 0) {
				return true
			}
		}
		// a guard established by an earlier `if <not schema-bound> { return … }` in the same function body
		var fbody *ast.BlockStmt = body
		fl, _ := enclosing(pm, cur, func(nd ast.Node) bool { _, ok := nd.(*ast.FuncLit); return ok }).(*ast.FuncLit)
		if fl != nil {
			fbody = fl.Body
		}
		if fbody != nil && fbody.Pos() <= cur.Pos() && cur.End() <= fbody.End() {
			if newFlow(info, fbody).established(cur, func(e ast.Expr, val bool) bool { return scoped(e, val, 0) }) {
				return true
			}
		}
		if fl == nil {
			break
		}
		cur = fl
	}
	return false
}

// helperOfAllowedReader: fi is not a listed reader of Schema.Name, but every static call of it in
// the module comes from one listed reader that is not a qualifier-aware sink (a helper extracted
// from it). Returns that reader's name.
func helperOfAllowedReader(c *Ctx, fi *FuncInfo) string {
	from := ""
	ok := true
	calls := 0
	c.AllFuncs(false, func(g *FuncInfo) {
		if !ok || g == fi {
			return
		}
		for _, call := range callsIn(g.Decl.Body, true) {
			if calleeOf(g.Info(), call) != fi.Obj {
				continue
			}
			calls++
			if _, listed := allowedSchemaNameReaders[g.Name]; !listed || qualifierSinks[g.Name] {
				ok = false
				return
			}
			if from != "" && from != g.Name {
				ok = false
				return
			}
			from = g.Name
		}
	})
	if !ok || calls == 0 {
		return ""
	}
	return from
}
