package main

// E-lin: a small abstract interpreter over linear integer expressions and
// substrings, used to prove the scanner's cursor invariant
//
//	s.input is a suffix of s.src, say src[a:], and s.total == a + s.pos
//
// for every path of every function that stores to the cursor fields. Shapes are
// not matched: `n := len(in); in = trim(in); total += n-len(in)` and
// `t := trim(in); total += len(in)-len(t); in = t` evaluate to the same
// symbolic state. Values the interpreter cannot express become fresh symbols;
// a string it cannot express as a substring makes the verdict "undecided"
// (the caller then falls back to the closed set of shapes).

import (
	"fmt"
	"go/ast"
	"go/constant"
	"go/token"
	"go/types"
	"sort"
	"strings"

	"golang.org/x/tools/go/cfg"
)

type linExpr struct {
	k int
	t map[string]int
}

func linConst(k int) linExpr  { return linExpr{k: k} }
func linSym(s string) linExpr { return linExpr{t: map[string]int{s: 1}} }
func (a linExpr) add(b linExpr, sign int) linExpr {
	r := linExpr{k: a.k + sign*b.k, t: map[string]int{}}
	for s, c := range a.t {
		r.t[s] = c
	}
	for s, c := range b.t {
		r.t[s] += sign * c
		if r.t[s] == 0 {
			delete(r.t, s)
		}
	}
	return r
}
func (a linExpr) isZero() bool { return a.k == 0 && len(a.t) == 0 }
func (a linExpr) String() string {
	var ks []string
	for s := range a.t {
		ks = append(ks, s)
	}
	sort.Strings(ks)
	out := ""
	for _, s := range ks {
		out += fmt.Sprintf("%+d·%s ", a.t[s], s)
	}
	return out + fmt.Sprintf("%+d", a.k)
}

// strVal is root[start:end); root 0 means unknown.
type strVal struct {
	root       int
	start, end linExpr
}

func (v strVal) known() bool  { return v.root != 0 }
func (v strVal) len() linExpr { return v.end.add(v.start, -1) }

type splitVal struct{ first, second strVal }

type linState struct {
	pos, total linExpr
	input, src strVal
	ints       map[types.Object]linExpr
	strs       map[types.Object]strVal
	splits     map[types.Object]splitVal
	unknownStr bool // a string that could not be modelled was stored in input/src
	trace      []string
}

func (s *linState) clone() *linState {
	n := *s
	n.ints = map[types.Object]linExpr{}
	for k, v := range s.ints {
		n.ints[k] = v
	}
	n.strs = map[types.Object]strVal{}
	for k, v := range s.strs {
		n.strs[k] = v
	}
	n.splits = map[types.Object]splitVal{}
	for k, v := range s.splits {
		n.splits[k] = v
	}
	n.trace = append([]string(nil), s.trace...)
	return &n
}

type linVerdict struct {
	proved    bool
	undecided string // non-empty: what could not be modelled
	refuted   string // non-empty: a path on which the invariant fails
	paths     int
}

type linAnalyzer struct {
	c        *Ctx
	info     *types.Info
	recv     types.Object
	fresh    int
	roots    int
	modInput map[*types.Func]bool // Scanner methods that may store to input (transitively)
	deltas   map[*types.Func]bool // Scanner methods that only add the same amount to pos and total
	isInit   bool
}

func (a *linAnalyzer) sym(prefix string) linExpr {
	a.fresh++
	return linSym(fmt.Sprintf("%s#%d", prefix, a.fresh))
}
func (a *linAnalyzer) newRoot() int { a.roots++; return a.roots }

// scannerCursorSummaries computes, for the methods of migrate.Scanner, which may modify input.
func scannerCursorSummaries(c *Ctx) (modInput map[*types.Func]bool, stores map[*types.Func]bool) {
	modInput, stores = map[*types.Func]bool{}, map[*types.Func]bool{}
	calls := map[*types.Func][]*types.Func{}
	c.AllFuncs(false, func(fi *FuncInfo) {
		if fi.Pkg.PkgPath != pMigrate || recvName(fi.Decl) != "Scanner" || len(fi.Decl.Recv.List[0].Names) != 1 {
			return
		}
		info := fi.Info()
		recv := info.ObjectOf(fi.Decl.Recv.List[0].Names[0])
		onRecv := func(e ast.Expr) bool {
			id, ok := ast.Unparen(e).(*ast.Ident)
			return ok && info.ObjectOf(id) == recv
		}
		ast.Inspect(fi.Decl.Body, func(m ast.Node) bool {
			switch x := m.(type) {
			case *ast.AssignStmt:
				for _, l := range x.Lhs {
					if se, ok := ast.Unparen(l).(*ast.SelectorExpr); ok && onRecv(se.X) {
						switch se.Sel.Name {
						case "input":
							modInput[fi.Obj] = true
							stores[fi.Obj] = true
						case "pos", "total", "src":
							stores[fi.Obj] = true
						}
					}
				}
			case *ast.IncDecStmt:
				if se, ok := ast.Unparen(x.X).(*ast.SelectorExpr); ok && onRecv(se.X) && (se.Sel.Name == "pos" || se.Sel.Name == "total") {
					stores[fi.Obj] = true
				}
			case *ast.CallExpr:
				if se, ok := x.Fun.(*ast.SelectorExpr); ok && onRecv(se.X) {
					if fn := calleeOf(info, x); fn != nil {
						calls[fi.Obj] = append(calls[fi.Obj], fn)
					}
				}
			}
			return true
		})
	})
	for changed := true; changed; {
		changed = false
		for f, cs := range calls {
			for _, g := range cs {
				if modInput[g] && !modInput[f] {
					modInput[f] = true
					changed = true
				}
			}
		}
	}
	return
}

// proveCursorInvariant analyses one function.
func proveCursorInvariant(c *Ctx, fi *FuncInfo, modInput map[*types.Func]bool) linVerdict {
	info := fi.Info()
	if fi.Decl.Recv == nil || len(fi.Decl.Recv.List[0].Names) != 1 {
		return linVerdict{undecided: "not a method with a named receiver"}
	}
	a := &linAnalyzer{c: c, info: info, recv: info.ObjectOf(fi.Decl.Recv.List[0].Names[0]), modInput: modInput, isInit: fi.Decl.Name.Name == "init"}
	g := cfg.New(fi.Decl.Body, noReturn(info))
	st := &linState{ints: map[types.Object]linExpr{}, strs: map[types.Object]strVal{}, splits: map[types.Object]splitVal{}}
	if a.isInit {
		// nothing is assumed at entry of init: it establishes the invariant
		st.pos, st.total = a.sym("pos0"), a.sym("total0")
		st.unknownStr = false
		st.src = strVal{root: a.newRoot(), start: linConst(0), end: a.sym("S")}
		st.input = strVal{root: a.newRoot(), start: linConst(0), end: a.sym("L")}
	} else {
		r := a.newRoot()
		S, a0, p0 := a.sym("S"), a.sym("a"), a.sym("p")
		st.src = strVal{root: r, start: linConst(0), end: S}
		st.input = strVal{root: r, start: a0, end: S}
		st.pos, st.total = p0, a0.add(p0, 1)
	}
	// string parameters are fresh roots
	for _, fld := range fi.Decl.Type.Params.List {
		for _, nm := range fld.Names {
			obj := info.ObjectOf(nm)
			if b, ok := obj.Type().Underlying().(*types.Basic); ok && b.Info()&types.IsString != 0 {
				st.strs[obj] = strVal{root: a.newRoot(), start: linConst(0), end: linSym("len(" + nm.Name + ")")}
			}
		}
	}
	v := linVerdict{}
	visits := map[*cfg.Block]int{}
	var walk func(b *cfg.Block, st *linState)
	walk = func(b *cfg.Block, st *linState) {
		if v.refuted != "" || v.undecided != "" {
			return
		}
		if visits[b] >= 2 {
			return
		}
		v.paths++
		if v.paths > 20000 {
			v.undecided = "too many paths"
			return
		}
		visits[b]++
		defer func() { visits[b]-- }()
		for _, n := range b.Nodes {
			if why := a.exec(n, st); why != "" {
				if strings.HasPrefix(why, "REFUTE:") {
					v.refuted = fmt.Sprintf("at %s: %s (path: %s)", c.pos(n.Pos()), strings.TrimPrefix(why, "REFUTE:"), strings.Join(st.trace, "; "))
				} else {
					v.undecided = why
				}
				return
			}
			if r, ok := n.(*ast.ReturnStmt); ok {
				if msg := a.checkInv(st); msg != "" && !(errorReturn(info, fi, r) && errorsAlwaysPropagated(c, fi)) {
					v.refuted = fmt.Sprintf("at the return at %s: %s (path: %s)", c.pos(r.Pos()), msg, strings.Join(st.trace, "; "))
				}
				return
			}
			if msg := a.pendingCallCheck(n, st); msg != "" {
				v.refuted = fmt.Sprintf("at %s: %s (path: %s)", c.pos(n.Pos()), msg, strings.Join(st.trace, "; "))
				return
			}
		}
		if len(b.Succs) == 0 {
			// falling off the end of the function
			if msg := a.checkInv(st); msg != "" {
				v.refuted = fmt.Sprintf("at the end of the function: %s (path: %s)", msg, strings.Join(st.trace, "; "))
			}
			return
		}
		for _, s := range b.Succs {
			walk(s, st.clone())
		}
	}
	walk(g.Blocks[0], st)
	v.proved = v.refuted == "" && v.undecided == ""
	return v
}

// errorReturn: a return whose last result is a non-nil error expression (the scan is abandoned).
func errorReturn(info *types.Info, fi *FuncInfo, r *ast.ReturnStmt) bool {
	if len(r.Results) == 0 {
		return false
	}
	last := r.Results[len(r.Results)-1]
	t := info.TypeOf(last)
	if t == nil || !types.Identical(t.Underlying(), types.Universe.Lookup("error").Type().Underlying()) && t.String() != "error" {
		if t == nil || !types.Implements(t, types.Universe.Lookup("error").Type().Underlying().(*types.Interface)) {
			return false
		}
	}
	return !isNilIdent(info, last)
}

func (a *linAnalyzer) checkInv(st *linState) string {
	if st.unknownStr || !st.input.known() || !st.src.known() {
		return "s.input is not expressed as a part of s.src"
	}
	if st.input.root != st.src.root {
		return "s.input is not a part of s.src"
	}
	if !st.input.end.add(st.src.end, -1).isZero() {
		return "s.input does not extend to the end of s.src (end differs by " + st.input.end.add(st.src.end, -1).String() + ")"
	}
	off := st.input.start.add(st.src.start, -1) // a
	d := st.total.add(off, -1).add(st.pos, -1)
	if !d.isZero() {
		return "total - (offset of input in src) - pos = " + d.String() + ", not 0"
	}
	return ""
}

func (a *linAnalyzer) onRecv(e ast.Expr) bool {
	id, ok := ast.Unparen(e).(*ast.Ident)
	return ok && a.info.ObjectOf(id) == a.recv
}

func (a *linAnalyzer) field(e ast.Expr) string {
	if se, ok := ast.Unparen(e).(*ast.SelectorExpr); ok && a.onRecv(se.X) {
		return se.Sel.Name
	}
	return ""
}

// pendingCallCheck: a call of another Scanner method on the receiver assumes the invariant.
func (a *linAnalyzer) pendingCallCheck(n ast.Node, st *linState) string { return "" }

func (a *linAnalyzer) evalInt(e ast.Expr, st *linState) linExpr {
	e = ast.Unparen(e)
	if tv, ok := a.info.Types[e]; ok && tv.Value != nil && tv.Value.Kind() == constant.Int {
		if v, exact := constant.Int64Val(tv.Value); exact {
			return linConst(int(v))
		}
	}
	switch x := e.(type) {
	case *ast.Ident:
		if v, ok := st.ints[a.info.ObjectOf(x)]; ok {
			return v
		}
		if obj := a.info.ObjectOf(x); obj != nil {
			return linSym("var:" + obj.Name() + fmt.Sprint(obj.Pos()))
		}
	case *ast.SelectorExpr:
		switch a.field(x) {
		case "pos":
			return st.pos
		case "total":
			return st.total
		}
		return linSym("sel:" + types.ExprString(x))
	case *ast.BinaryExpr:
		switch x.Op {
		case token.ADD:
			return a.evalInt(x.X, st).add(a.evalInt(x.Y, st), 1)
		case token.SUB:
			return a.evalInt(x.X, st).add(a.evalInt(x.Y, st), -1)
		}
	case *ast.UnaryExpr:
		if x.Op == token.SUB {
			return linConst(0).add(a.evalInt(x.X, st), -1)
		}
	case *ast.CallExpr:
		if builtinName(a.info, x) == "len" && len(x.Args) == 1 {
			if sv := a.evalStr(x.Args[0], st); sv.known() {
				return sv.len()
			}
			return linSym("len(" + types.ExprString(x.Args[0]) + ")")
		}
		if tv, ok := a.info.Types[x.Fun]; ok && tv.IsType() && len(x.Args) == 1 { // conversion
			return a.evalInt(x.Args[0], st)
		}
	}
	return a.sym("?")
}

func (a *linAnalyzer) evalStr(e ast.Expr, st *linState) strVal {
	e = ast.Unparen(e)
	switch x := e.(type) {
	case *ast.Ident:
		if v, ok := st.strs[a.info.ObjectOf(x)]; ok {
			return v
		}
	case *ast.SelectorExpr:
		switch a.field(x) {
		case "input":
			return st.input
		case "src":
			return st.src
		}
	case *ast.SliceExpr:
		base := a.evalStr(x.X, st)
		if !base.known() {
			return strVal{}
		}
		r := base
		if x.Low != nil {
			r.start = base.start.add(a.evalInt(x.Low, st), 1)
		}
		if x.High != nil {
			r.end = base.start.add(a.evalInt(x.High, st), 1)
		}
		return r
	case *ast.IndexExpr:
		if id, ok := ast.Unparen(x.X).(*ast.Ident); ok {
			if sp, ok := st.splits[a.info.ObjectOf(id)]; ok {
				if tv := a.info.Types[x.Index]; tv.Value != nil {
					switch tv.Value.String() {
					case "0":
						return sp.first
					case "1":
						return sp.second
					}
				}
			}
		}
	case *ast.CallExpr:
		fn := calleeOf(a.info, x)
		if fn == nil || fn.Pkg() == nil || fn.Pkg().Path() != "strings" || len(x.Args) == 0 {
			return strVal{}
		}
		base := a.evalStr(x.Args[0], st)
		if !base.known() {
			return strVal{}
		}
		switch fn.Name() {
		case "TrimLeft", "TrimLeftFunc", "TrimPrefix":
			base.start = base.start.add(a.sym("k"), 1)
			return base
		case "TrimRight", "TrimRightFunc", "TrimSuffix":
			base.end = base.end.add(a.sym("k"), -1)
			return base
		case "TrimSpace", "Trim", "TrimFunc":
			base.start = base.start.add(a.sym("k"), 1)
			base.end = base.end.add(a.sym("k"), -1)
			return base
		}
	}
	return strVal{}
}

func isStringType(t types.Type) bool {
	if t == nil {
		return false
	}
	b, ok := t.Underlying().(*types.Basic)
	return ok && b.Info()&types.IsString != 0
}

func isIntType(t types.Type) bool {
	if t == nil {
		return false
	}
	b, ok := t.Underlying().(*types.Basic)
	return ok && b.Info()&types.IsInteger != 0
}

// exec applies one CFG node to the state; a non-empty result means "cannot model".
func (a *linAnalyzer) exec(n ast.Node, st *linState) string {
	// calls of Scanner methods on the receiver, in source order
	var why string
	ast.Inspect(n, func(m ast.Node) bool {
		if _, isLit := m.(*ast.FuncLit); isLit {
			return false
		}
		call, ok := m.(*ast.CallExpr)
		if !ok {
			return true
		}
		se, ok := call.Fun.(*ast.SelectorExpr)
		if !ok || !a.onRecv(se.X) {
			return true
		}
		fn := calleeOf(a.info, call)
		if fn == nil || recvTypeName(fn) != "Scanner" {
			return true
		}
		if fn.Name() == "addPos" && len(call.Args) == 1 {
			d := a.evalInt(call.Args[0], st)
			st.pos, st.total = st.pos.add(d, 1), st.total.add(d, 1)
			st.trace = append(st.trace, "addPos")
			return true
		}
		if fn.Name() == "error" || fn.Name() == "setDelim" {
			return true
		}
		// any other method assumes the invariant and preserves it (checked on its own)
		if !(a.isInit && fn.Name() == "init") {
			if msg := a.checkInv(st); msg != "" {
				why2 := "the invariant does not hold when " + fn.Name() + " is called: " + msg
				st.trace = append(st.trace, why2)
				why = "REFUTE:" + why2
				return false
			}
		}
		np := a.sym("p")
		if a.modInput[fn] {
			na := a.sym("a")
			st.input = strVal{root: st.src.root, start: st.src.start.add(na, 1), end: st.src.end}
		}
		st.pos = np
		st.total = st.input.start.add(st.src.start, -1).add(np, 1)
		st.trace = append(st.trace, fn.Name()+"()")
		return true
	})
	if strings.HasPrefix(why, "REFUTE:") {
		return why
	}
	switch x := n.(type) {
	case *ast.AssignStmt:
		return a.assign(x, st)
	case *ast.IncDecStmt:
		d := 1
		if x.Tok == token.DEC {
			d = -1
		}
		switch a.field(x.X) {
		case "pos":
			st.pos = st.pos.add(linConst(d), 1)
		case "total":
			st.total = st.total.add(linConst(d), 1)
		default:
			if id, ok := ast.Unparen(x.X).(*ast.Ident); ok {
				if v, ok := st.ints[a.info.ObjectOf(id)]; ok {
					st.ints[a.info.ObjectOf(id)] = v.add(linConst(d), 1)
				}
			}
		}
	case *ast.DeclStmt:
		if gd, ok := x.Decl.(*ast.GenDecl); ok {
			for _, sp := range gd.Specs {
				if vs, ok := sp.(*ast.ValueSpec); ok {
					for i, nm := range vs.Names {
						obj := a.info.ObjectOf(nm)
						switch {
						case i < len(vs.Values) && isStringType(obj.Type()):
							st.strs[obj] = a.evalStr(vs.Values[i], st)
						case i < len(vs.Values) && isIntType(obj.Type()):
							st.ints[obj] = a.evalInt(vs.Values[i], st)
						case isStringType(obj.Type()):
							st.strs[obj] = strVal{root: a.newRoot(), start: linConst(0), end: linConst(0)}
						case isIntType(obj.Type()):
							st.ints[obj] = linConst(0)
						}
					}
				}
			}
		}
	}
	return ""
}

func (a *linAnalyzer) assign(x *ast.AssignStmt, st *linState) string {
	// evaluate all right-hand sides first (tuple assignment semantics)
	type rv struct {
		i  linExpr
		s  strVal
		sp *splitVal
	}
	var vals []rv
	if len(x.Rhs) == 1 && len(x.Lhs) > 1 {
		// multi-value call
		vals = make([]rv, len(x.Lhs))
		for i := range vals {
			vals[i].i = a.sym("?")
		}
		if call, ok := ast.Unparen(x.Rhs[0]).(*ast.CallExpr); ok {
			if fn := calleeOf(a.info, call); fn != nil && fn.Pkg() != nil && fn.Pkg().Path() == "strings" && fn.Name() == "Cut" && len(call.Args) == 2 && len(x.Lhs) == 3 {
				base := a.evalStr(call.Args[0], st)
				if base.known() {
					b := a.sym("cut")
					sepLen := a.evalInt(&ast.CallExpr{Fun: ast.NewIdent("len"), Args: []ast.Expr{call.Args[1]}}, st)
					if k, ok := stringConst(a.info, call.Args[1]); ok {
						sepLen = linConst(len(k))
					}
					vals[0].s = strVal{root: base.root, start: base.start, end: base.start.add(b, 1)}
					vals[1].s = strVal{root: base.root, start: base.start.add(b, 1).add(sepLen, 1), end: base.end}
				}
			}
		}
	} else {
		for i, r := range x.Rhs {
			var v rv
			t := a.info.TypeOf(r)
			switch {
			case isStringType(t):
				v.s = a.evalStr(r, st)
			case isIntType(t):
				if x.Tok == token.ADD_ASSIGN || x.Tok == token.SUB_ASSIGN {
					sign := 1
					if x.Tok == token.SUB_ASSIGN {
						sign = -1
					}
					v.i = a.evalInt(x.Lhs[i], st).add(a.evalInt(r, st), sign)
				} else {
					v.i = a.evalInt(r, st)
				}
			default:
				if call, ok := ast.Unparen(r).(*ast.CallExpr); ok {
					if fn := calleeOf(a.info, call); fn != nil && fn.Pkg() != nil && fn.Pkg().Path() == "strings" && fn.Name() == "SplitN" && len(call.Args) == 3 {
						if tv := a.info.Types[call.Args[2]]; tv.Value != nil && tv.Value.String() == "2" {
							base := a.evalStr(call.Args[0], st)
							if base.known() {
								b := a.sym("split")
								sepLen := a.sym("seplen")
								if k, ok := stringConst(a.info, call.Args[1]); ok {
									sepLen = linConst(len(k))
								}
								v.sp = &splitVal{
									first:  strVal{root: base.root, start: base.start, end: base.start.add(b, 1)},
									second: strVal{root: base.root, start: base.start.add(b, 1).add(sepLen, 1), end: base.end},
								}
							}
						}
					}
				}
				v.i = a.sym("?")
			}
			vals = append(vals, v)
		}
	}
	for i, l := range x.Lhs {
		if i >= len(vals) {
			break
		}
		v := vals[i]
		switch a.field(l) {
		case "pos":
			st.pos = v.i
			st.trace = append(st.trace, "pos="+types.ExprString(rhsOf(x, i)))
			continue
		case "total":
			st.total = v.i
			st.trace = append(st.trace, "total"+x.Tok.String()+types.ExprString(rhsOf(x, i)))
			continue
		case "input":
			st.input = v.s
			if !v.s.known() {
				return "s.input is assigned " + types.ExprString(rhsOf(x, i)) + ", which is not expressible as a part of a known string"
			}
			st.trace = append(st.trace, "input="+types.ExprString(rhsOf(x, i)))
			continue
		case "src":
			st.src = v.s
			if !v.s.known() {
				return "s.src is assigned a string that is not expressible"
			}
			continue
		}
		if id, ok := ast.Unparen(l).(*ast.Ident); ok && id.Name != "_" {
			obj := a.info.ObjectOf(id)
			if obj == nil {
				continue
			}
			switch {
			case v.sp != nil:
				st.splits[obj] = *v.sp
			case isStringType(obj.Type()):
				st.strs[obj] = v.s
			case isIntType(obj.Type()):
				st.ints[obj] = v.i
			}
		}
	}
	return ""
}

func rhsOf(x *ast.AssignStmt, i int) ast.Expr {
	if len(x.Rhs) == len(x.Lhs) {
		return x.Rhs[i]
	}
	return x.Rhs[0]
}

// errorsAlwaysPropagated: every call site of the method (in its package)
// returns the error it got without touching the scanner again, so the state of
// the cursors after an error return is never observed. A caller that tests
// `err == nil` and carries on when it is not (stmt() does that for the
// skipBegin* family: "not a BEGIN block") makes the error return an ordinary
// exit, and the invariant must hold there too.
func errorsAlwaysPropagated(c *Ctx, fi *FuncInfo) bool {
	ok := true
	c.AllFuncs(false, func(g *FuncInfo) {
		if g.Pkg != fi.Pkg || !ok {
			return
		}
		info := g.Info()
		pm := parentMap(g.Decl.Body)
		ast.Inspect(g.Decl.Body, func(m ast.Node) bool {
			call, isCall := m.(*ast.CallExpr)
			if !isCall || calleeOf(info, call) != fi.Obj {
				return true
			}
			// accepted call shapes: `return f()`, `if err := f(); err != nil { return …err… }`, `x, err := f(); if err != nil { return … }`
			switch p := pm[call].(type) {
			case *ast.ReturnStmt:
				return true
			case *ast.AssignStmt:
				// find the if that tests the error right where it is assigned or in the next statement
				var cond *ast.IfStmt
				if ifs, isIf := pm[p].(*ast.IfStmt); isIf && ifs.Init == ast.Stmt(p) {
					cond = ifs
				} else if blk, isBlk := pm[p].(*ast.BlockStmt); isBlk {
					for i, st := range blk.List {
						if st == ast.Stmt(p) && i+1 < len(blk.List) {
							cond, _ = blk.List[i+1].(*ast.IfStmt)
						}
					}
				} else if cc, isCC := pm[p].(*ast.CaseClause); isCC {
					for i, st := range cc.Body {
						if st == ast.Stmt(p) && i+1 < len(cc.Body) {
							cond, _ = cc.Body[i+1].(*ast.IfStmt)
						}
					}
				}
				if cond == nil {
					ok = false
					return true
				}
				be, isBin := ast.Unparen(cond.Cond).(*ast.BinaryExpr)
				if !isBin || be.Op != token.NEQ || !isNilIdent(info, be.Y) {
					ok = false // `err == nil { … }` and anything else: execution continues after an error
					return true
				}
				last := cond.Body.List[len(cond.Body.List)-1]
				if _, isRet := last.(*ast.ReturnStmt); !isRet {
					ok = false
				}
			default:
				ok = false
			}
			return true
		})
	})
	return ok
}
