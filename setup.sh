#!/bin/bash
# Builds the checker from files on disk only (x/tools v0.50.0 from the module cache, go1.26.8).
set -eu
cd "$(dirname "$0")"
export GOFLAGS=-mod=mod GOPROXY=off GOSUMDB=off GOTOOLCHAIN=local GOWORK=off
export PATH=/opt/veriftools/go1.26.8/bin:$PATH
mkdir -p bin evidence
( cd atlascheck && go build -o ../bin/atlascheck . )
echo "atlascheck built: $(./bin/atlascheck -list | tr '\n' ' ')"
